"""Aliasing histories on pySDC's numpy-based solution data types (part of C13).

A history is a sequence of operations on a small pool of *names* (new / copy-construct / alias / binary operation /
augmented assignment / component view / write through a view / abs), executed on the real classes and on a reference
model made of plain numpy arrays with the semantics the property states:

  * a binary operation and an augmented assignment produce a fresh value and rebind only the target name; no other name
    (alias of an operand, view on its buffer, object the operand is a view of) changes its value,
  * the result has the data type of the operands, copy construction yields independent storage,
  * a component of a multi-component mesh is a writable view of the one buffer (writing ``f.impl[:] = x`` changes ``f``),
  * ``abs()`` is the maximum norm.

After every operation the bytes and the type of *every* name are compared with the model.  No fault is injected here: the
state the clause speaks about is the sharing of buffers between names, which depends on the history of operations; the
generator is seeded, the history is minimised and replayed like every other scenario.
"""
import numpy as np

from sim.core.base import Result, EventLog, bdigest

CLASSES = {
    'mesh': ('pySDC.implementations.datatype_classes.mesh', 'mesh', None),
    'imex_mesh': ('pySDC.implementations.datatype_classes.mesh', 'imex_mesh', ['impl', 'expl']),
    'comp2_mesh': ('pySDC.implementations.datatype_classes.mesh', 'comp2_mesh', ['comp1', 'comp2']),
    'MeshDAE': ('pySDC.projects.DAE.misc.meshDAE', 'MeshDAE', ['diff', 'alg']),
    'position': ('pySDC.implementations.datatype_classes.particles', 'particles.position', None),
    'acceleration': ('pySDC.implementations.datatype_classes.particles', 'acceleration', None),
}
NV = 5
BINOPS = ['add', 'sub', 'mul']
_F = {'add': lambda a, b: a + b, 'sub': lambda a, b: a - b, 'mul': lambda a, b: a * b}


def _cls(name):
    import importlib

    mod, attr, comps = CLASSES[name]
    o = importlib.import_module(mod)
    for part in attr.split('.'):
        o = getattr(o, part)
    return o, comps


CONTAINERS = {
    'particles': ('pySDC.implementations.datatype_classes.particles', 'particles', ['pos', 'vel']),
    'fields': ('pySDC.implementations.datatype_classes.particles', 'fields', ['elec', 'magn']),
}


def generate_container(r):
    cname = r.choice(['particles', 'particles', 'fields'])
    shape = r.choice([[3, 1], [3, 2], [3, 4]])
    ops = [['new', i, r.randrange(1 << 20)] for i in range(NV)]
    for _ in range(r.randint(3, 12)):
        c = r.random()
        a, b, d = r.randrange(NV), r.randrange(NV), r.randrange(NV)
        scal = r.choice([2.0, -0.5, 3.0, 0.25])
        if c < 0.25:
            ops.append(['aug', a, r.choice(['add', 'sub']), b])
        elif c < 0.45:
            ops.append(['bin', d, r.choice(['add', 'sub']), a, b])
        elif c < 0.55:
            ops.append(['rmul', d, scal, a])
        elif c < 0.65:
            ops.append(['alias', d, a])
        elif c < 0.75:
            ops.append(['copy', d, a])
        elif c < 0.9:
            ops.append(['compset', a, r.randrange(2), ['v', b] if r.random() < 0.6 else ['s', scal]])
        else:
            ops.append(['abs', a])
    ops.append(['abs', r.randrange(NV)])
    return {'engine': 'dtypesim', 'kind': 'container_history', 'cls': cname, 'shape': shape, 'dtype': 'float64', 'ops': ops}


def execute_container(sc):
    import importlib

    res, log = Result(), EventLog()
    V = lambda clause, site, detail, **ident: res.violate('C13', clause, site, detail, ident=dict(cls=sc['cls'], **ident))  # noqa: E731
    mod, attr, comps = CONTAINERS[sc['cls']]
    cls = getattr(importlib.import_module(mod), attr)
    shape, dtype = tuple(sc['shape']), np.dtype('float64')
    extra = ['q', 'm'] if sc['cls'] == 'particles' else []
    real, model = {}, {}

    def mk(vals):
        return {c: vals[i].copy() for i, c in enumerate(comps)}

    def compare(step, op):
        for n in sorted(real):
            x, m = real[n], model[n]
            if type(x) is not cls:
                V('result_type', op[0], f'after op {step} {op}: v{n} is a {type(x).__name__}, expected {cls.__name__}', op=op[0])
                return False
            for c in comps:
                xa = np.asarray(getattr(x, c))
                if type(getattr(x, c)).__name__ not in ('position', 'velocity', 'electric', 'magnetic'):
                    V('result_type', op[0], f'after op {step} {op}: v{n}.{c} is a {type(getattr(x, c)).__name__}', op=op[0])
                    return False
                if xa.shape != m[c].shape or xa.tobytes() != m[c].tobytes():
                    V('value_semantics', op[0], f'after op {step} {op}: v{n}.{c} holds {xa.tolist()!r}, the reference model {m[c].tolist()!r}', op=op[0])
                    return False
            for c in extra:
                if np.asarray(getattr(x, c)).tobytes() != m[c].tobytes():
                    V('value_semantics', op[0], f'after op {step} {op}: v{n}.{c} differs from the reference model', op=op[0])
                    return False
        return True

    nops = 0
    for step, op in enumerate(sc['ops']):
        k = op[0]
        if k == 'new':
            vals = _values(op[2], (2, *shape), 'float64')
            x = cls((shape, None, dtype), val=0.0)
            for i, c in enumerate(comps):
                getattr(x, c)[:] = vals[i]
            m = mk(vals)
            if extra:
                qm = _values(op[2] + 1, (2, shape[-1]), 'float64')
                x.q[:], x.m[:] = qm[0], qm[1]
                m['q'], m['m'] = qm[0].copy(), qm[1].copy()
            real[op[1]], model[op[1]] = x, m
        elif k == 'copy':
            real[op[1]], model[op[1]] = cls(real[op[2]]), {c: v.copy() for c, v in model[op[2]].items()}
            res.probe('copy_construct')
        elif k == 'alias':
            real[op[1]], model[op[1]] = real[op[2]], model[op[2]]
        elif k in ('bin', 'aug'):
            dst, o, a, b = (op[1], op[2], op[3], op[4]) if k == 'bin' else (op[1], op[2], op[1], op[3])
            if k == 'bin':
                rr = real[a] + real[b] if o == 'add' else real[a] - real[b]
            else:
                x = real[a]
                if o == 'add':
                    x += real[b]
                else:
                    x -= real[b]
                rr = x
                res.probe('augmented_assignment')
                if sum(1 for n in real if real[n] is real[a]) > 1:
                    res.probe('augmented_assignment_on_aliased_name')
            mr = {c: (model[a][c] + model[b][c] if o == 'add' else model[a][c] - model[b][c]) for c in comps}
            for c in extra:
                mr[c] = model[a][c]  # charge and mass are taken over from the left operand (shared, never written here)
            real[dst], model[dst] = rr, mr
        elif k == 'rmul':
            real[op[1]] = op[2] * real[op[3]]
            mr = {c: op[2] * model[op[3]][c] for c in comps}
            for c in extra:
                mr[c] = model[op[3]][c]
            model[op[1]] = mr
        elif k == 'compset':
            a, c = op[1], comps[op[2]]
            if op[3][0] == 's':
                getattr(real[a], c)[:] = op[3][1]
                model[a][c][:] = op[3][1]
            else:
                getattr(real[a], c)[:] = getattr(real[op[3][1]], c)
                model[a][c][:] = model[op[3][1]][c]
            res.probe('write_through_component_view')
        elif k == 'abs':
            if sc['cls'] != 'particles':
                continue
            got, want = abs(real[op[1]]), float(max(np.max(np.abs(model[op[1]][c])) for c in comps))
            if not isinstance(got, float) or got != want:
                V('abs_is_max_norm', 'abs', f'abs(v{op[1]}) = {got!r}, maximum norm of positions and velocities is {want!r}')
                break
            res.probe('abs')
        else:
            raise ValueError(k)
        nops += 1
        log.add('dc', step, k, [bdigest(np.concatenate([np.asarray(getattr(real[n], c)).reshape(-1) for c in comps])) for n in sorted(real)])
        if not compare(step, op):
            break
    res.probe('container_history')
    res['ticks'] = nops
    res['nontrivial'] = nops > NV + 2
    return res.finish(log)


def generate(r):
    if r.random() < 0.2:
        return generate_container(r)
    cname = r.choice(['mesh', 'mesh', 'imex_mesh', 'imex_mesh', 'comp2_mesh', 'MeshDAE', 'position', 'acceleration'])
    shape = r.choice([[3], [4], [2, 3], [1], [5], [2], [2, 2]])
    dtype = r.choice(['float64', 'float64', 'complex128'])
    ops = [['new', i, r.randrange(1 << 20)] for i in range(NV)]
    ncomp = len(CLASSES[cname][2] or [])
    for _ in range(r.randint(3, 14)):
        c = r.random()
        a, b, d = r.randrange(NV), r.randrange(NV), r.randrange(NV)
        scal = r.choice([2.0, -0.5, 3.0, 0.25, 1.5])
        if c < 0.22:
            ops.append(['aug', a, r.choice(BINOPS), ['v', b] if r.random() < 0.6 else ['s', scal]])
        elif c < 0.40:
            ops.append(['bin', d, r.choice(BINOPS), a, ['v', b] if r.random() < 0.6 else ['s', scal]])
        elif c < 0.46:
            ops.append(['rbin', d, r.choice(BINOPS), scal, a])
        elif c < 0.56:
            ops.append(['alias', d, a])
        elif c < 0.64:
            ops.append(['copy', d, a])
        elif c < 0.72:
            ops.append(['new', d, r.randrange(1 << 20)])
        elif c < 0.80:
            ops.append(['setall', a, ['v', b] if r.random() < 0.7 else ['s', scal]])
        elif c < 0.86:
            ops.append(['abs', a])
        elif c < 0.92:
            ops.append(['slice', d, a, r.choice([[0, None, 1], [1, None, 1], [0, 1, 1], [0, -1, 1], [None, None, 2], [None, None, -1], [1, None, 2]]), r.choice(['data', 'data', 'first'])])
            if ncomp and r.random() < 0.6:
                # use the sub-mesh right away: write through one of its components, or take a component and write through that
                if r.random() < 0.5:
                    ops.append(['compset', d, r.randrange(ncomp), ['s', scal]])
                else:
                    e = r.randrange(NV)
                    ops.append(['comp', e, d, r.randrange(ncomp)])
                    ops.append(['setall', e, ['s', scal]])
        elif ncomp:
            if r.random() < 0.5:
                ops.append(['comp', d, a, r.randrange(ncomp)])
            else:
                ops.append(['compset', a, r.randrange(ncomp), ['v', b] if r.random() < 0.5 else ['s', scal]])
        else:
            ops.append(['neg', d, a])
    ops.append(['abs', r.randrange(NV)])
    return {'engine': 'dtypesim', 'kind': 'dtype_history', 'cls': cname, 'shape': shape, 'dtype': dtype, 'ops': ops}


def _values(seed, shape, dtype):
    rs = np.random.RandomState(seed)
    v = rs.uniform(-4, 4, size=shape)
    if dtype.startswith('complex'):
        v = v + 1j * rs.uniform(-4, 4, size=shape)
    return v.astype(dtype)


def execute(sc):
    if sc.get('kind') == 'container_history':
        return execute_container(sc)
    res, log = Result(), EventLog()
    V = lambda clause, site, detail, **ident: res.violate('C13', clause, site, detail, ident=dict(cls=sc['cls'], **ident))  # noqa: E731
    cls, comps = _cls(sc['cls'])
    from pySDC.implementations.datatype_classes.mesh import mesh as base_mesh

    dtype = np.dtype(sc['dtype'])
    shape = tuple(sc['shape'])
    full = (len(comps), *shape) if comps else shape
    real, model, tag = {}, {}, {}  # name -> object / numpy array / expected type

    def compare(step, op):
        for n in sorted(real):
            x, m = real[n], model[n]
            if type(x) is not tag[n]:
                V('result_type', op[0], f'after op {step} {op}: v{n} is a {type(x).__name__}, expected {tag[n].__name__}', op=op[0])
                return False
            xa = np.asarray(x)
            if xa.shape != m.shape or xa.dtype != m.dtype or xa.tobytes() != np.ascontiguousarray(m).tobytes():
                V('value_semantics', op[0], f'after op {step} {op}: v{n} holds {xa.tolist()!r}, the reference model {m.tolist()!r}', op=op[0])
                return False
        return True

    def operand(spec):
        if spec[0] == 's':
            return spec[1], spec[1], None
        return real.get(spec[1]), model.get(spec[1]), spec[1]

    nops = 0
    for step, op in enumerate(sc['ops']):
        k = op[0]
        try:
            if k == 'new':
                vals = _values(op[2], full, sc['dtype'])
                x = cls((shape, None, dtype), val=0.0)
                if np.asarray(x).shape != full:
                    V('construction', 'new', f'{sc["cls"]}({shape}) has shape {np.asarray(x).shape}, expected {full}')
                    break
                x[:] = vals
                real[op[1]], model[op[1]], tag[op[1]] = x, vals.copy(), cls
            elif k == 'copy':
                if op[2] not in real:
                    continue
                src = real[op[2]]
                real[op[1]], model[op[1]], tag[op[1]] = type(src)(src), model[op[2]].copy(), tag[op[2]]
                res.probe('copy_construct')
            elif k == 'alias':
                if op[2] not in real:
                    continue
                real[op[1]], model[op[1]], tag[op[1]] = real[op[2]], model[op[2]], tag[op[2]]
            elif k in ('bin', 'aug'):
                dst, o, a = (op[1], op[2], op[3]) if k == 'bin' else (op[1], op[2], op[1])
                spec = op[4] if k == 'bin' else op[3]
                if a not in real:
                    continue
                rb, mb, nb = operand(spec)
                if rb is None or (nb is not None and (model[nb].shape != model[a].shape or tag[nb] is not tag[a])):
                    continue
                if k == 'bin':
                    rr = _F[o](real[a], rb)
                else:
                    x = real[a]
                    if o == 'add':
                        x += rb
                    elif o == 'sub':
                        x -= rb
                    else:
                        x *= rb
                    rr = x
                    res.probe('augmented_assignment')
                    if sum(1 for n in real if real[n] is real[a]) > 1:
                        res.probe('augmented_assignment_on_aliased_name')
                    if getattr(real[a], 'base', None) is not None:
                        res.probe('augmented_assignment_on_object_with_base')
                mr = _F[o](model[a], mb)
                real[dst], model[dst], tag[dst] = rr, mr, tag[a]
            elif k == 'rbin':
                if op[4] not in real:
                    continue
                real[op[1]], model[op[1]], tag[op[1]] = _F[op[2]](op[3], real[op[4]]), _F[op[2]](op[3], model[op[4]]), tag[op[4]]
            elif k == 'neg':
                if op[2] not in real:
                    continue
                real[op[1]], model[op[1]], tag[op[1]] = -real[op[2]], -model[op[2]], tag[op[2]]
            elif k == 'setall':
                a = op[1]
                rb, mb, nb = operand(op[2])
                if a not in real or rb is None or (nb is not None and model[nb].shape != model[a].shape):
                    continue
                real[a][:] = rb
                model[a][:] = mb
                res.probe('write_through_name')
            elif k == 'slice':
                if op[2] not in real or model[op[2]].ndim < 1:
                    continue
                sl = slice(*op[3])
                # 'data': along the first axis that is not the component axis (a multi-component mesh keeps all its components)
                multi = comps and tag[op[2]] is cls and model[op[2]].ndim >= 2 and model[op[2]].shape[0] == len(comps)
                idx = (slice(None), sl) if (len(op) > 4 and op[4] == 'data' and multi) else sl
                if model[op[2]][idx].size == 0:
                    continue
                real[op[1]], model[op[1]], tag[op[1]] = real[op[2]][idx], model[op[2]][idx], tag[op[2]]
                res.probe('slice_view')
                if not model[op[1]].flags['C_CONTIGUOUS']:
                    res.probe('strided_view')
            elif k == 'comp':
                if not comps or op[2] not in real or tag[op[2]] is not cls or model[op[2]].ndim < 1 or model[op[2]].shape[0] != len(comps):
                    continue
                real[op[1]], model[op[1]], tag[op[1]] = getattr(real[op[2]], comps[op[3]]), model[op[2]][op[3]], base_mesh
                res.probe('component_view')
            elif k == 'compset':
                a = op[1]
                if not comps or a not in real or tag[a] is not cls or model[a].ndim < 1 or model[a].shape[0] != len(comps):
                    continue
                rb, mb, nb = operand(op[3])
                if rb is None:
                    continue
                if nb is not None:
                    if model[nb].shape == model[a].shape and tag[nb] is cls:
                        rb, mb = getattr(rb, comps[op[2]]), mb[op[2]]
                    elif model[nb].shape != model[a].shape[1:]:
                        continue
                getattr(real[a], comps[op[2]])[:] = rb
                model[a][op[2]][:] = mb
                res.probe('write_through_component_view')
            elif k == 'abs':
                if op[1] not in real:
                    continue
                got, want = abs(real[op[1]]), float(np.max(np.abs(model[op[1]])))
                if not isinstance(got, float) or got != want:
                    V('abs_is_max_norm', 'abs', f'abs(v{op[1]}) = {got!r} ({type(got).__name__}), maximum norm of the values is {want!r}')
                    break
                res.probe('abs')
            else:
                raise ValueError(k)
        except (ValueError, TypeError, AttributeError) as e:
            if k in ('new', 'copy', 'alias') or isinstance(e, ValueError) and str(e) == k:
                raise
            V('operation_raises', k, f'op {step} {op} raised {type(e).__name__}: {e}', op=k)
            break
        nops += 1
        log.add('dt', step, k, [bdigest(np.ascontiguousarray(np.asarray(real[n]))) for n in sorted(real)])
        if not compare(step, op):
            break
    res['ticks'] = nops
    res['nontrivial'] = nops > NV + 2
    return res.finish(log)


def shrink(sc):
    """Candidates: drop one operation (never the initial definitions), fewer values, real dtype."""
    out = []
    ops = sc['ops']
    for i in range(len(ops) - 1, NV - 1, -1):
        out.append({**sc, 'ops': ops[:i] + ops[i + 1:]})
    if len(ops) > NV + 4:
        out.insert(0, {**sc, 'ops': ops[: NV + (len(ops) - NV) // 2]})
    if sc['shape'] != [1] and sc.get('kind') != 'container_history':
        out.append({**sc, 'shape': [1]})
    if sc['dtype'] != 'float64':
        out.append({**sc, 'dtype': 'float64'})
    return out
