"""C19 -- runs are reproducible, re-entrant and composable at step boundaries (engine: blocksim; process histories)."""
import copy
import os
import pickle
import struct

import numpy as np

from sim.core.base import rng_for, Result, EventLog, bdigest
from sim import blocksim, physics, workloads

PROP = 'C19'
LEVEL = 'exploration'
RULE = (
    'A run is one PROCESS HISTORY: up to 8 operations, without fork in between, over a pool of up to 3 real controllers with '
    'different descriptions: new, run, rerun on the same controller, split a fixed-step run at a block boundary and continue from '
    'the returned value (same or fresh controller), interleaved runs of an adaptive/RK controller that registers extra status '
    'variables and hooks, two controllers built from the very same dictionaries, runs after a run that raised. The reference for '
    'every run is the same run executed alone in a freshly forked child. Required: returned value bitwise equal, statistics equal '
    'key for key and bit for bit (values of timing_* aside), for split runs the concatenated per-step records equal those of the '
    'uninterrupted run. Non-trivial = at least 3 operations on at least 2 controllers or a rerun/split; distinct = distinct digest.'
)
COMPONENTS_REAL = ['controller_nonMPI.__init__/run/restart_block', 'Controller.__init__ (hook/convergence-controller registration)', 'Level.reset_level, Step', 'FrozenClass registries', 'Sweeper.__init__ (RNG of initial_guess=random)', 'Hooks statistics']
COMPONENTS_STUB = ['none']
ASSUMPTIONS = ['timing_* values are excluded (their keys must agree)', 'reruns on the same controller are judged for fixed-step configurations only, as the property states',
               'reference runs are isolated by fork(): the child inherits the warm parent that never constructed a controller']
PROBES = ['rerun_same_controller', 'split_same_controller', 'split_fresh_controller', 'interleaved_other_controller', 'shared_dictionaries', 'run_after_ConvergenceError', 'initial_guess_random', 'other_interval_on_used_controller', 'run_aborted_by_user_hook', 'level_status_variable_registered', 'dictionaries_used_by_another_controller_before']


def plan(tier):
    if tier == 'thorough':
        return {'n': 60000, 'chunk': 60, 'timeout': 600, 'selftest': 30, 'budget_s': 3000, 'minimize_s': 300}
    return {'n': 400, 'chunk': 10, 'timeout': 600, 'selftest': 8, 'budget_s': 900, 'minimize_s': 120}


# ----------------------------------------------------------------------------------------------------------------
def _fixed_cfg(r):
    if r.random() < 0.5:
        sc = physics.gen_config(r, allow_faults=False, fixed_step=True)
        cfg = sc['config']
        cfg['step']['maxiter'] = min(cfg['step']['maxiter'], 8)
    else:
        P = r.randint(1, 4)
        nl = r.choice([1, 2, 3])
        sc = {'config': workloads.stub_config(P, nl, r.randint(1, 4), nsweeps_fine=r.choice([1, 2]), predict=None if nl == 1 else r.choice([None, 'fine_only', 'pfasst_burnin']),
                                               jac=r.random() < 0.5, dt=2.0 ** -r.randint(2, 5), restol=r.choice([-1.0, 1e-9]),
                                               initial_guess=r.choice(['spread', 'copy', 'zero', 'random', 'random']))}
        cfg = sc['config']
        cfg['run']['u0'] = r.choice(['ones', 7, 'exact'])
    cfg['hooks'] = ['LogSolution', 'LogWork']
    if r.random() < 0.3:
        # increment-based stopping: loads EstimateEmbeddedError, which registers extra level status variables
        cfg['level']['e_tol'] = 10 ** r.uniform(-9, -4)
        cfg['level']['restol'] = -1.0
        cfg['step']['maxiter'] = max(cfg['step']['maxiter'], 6)
    nb = r.randint(2, 4)
    cfg['run']['t0'] = r.choice([0.0, 0.0, 1.0])
    cfg['run']['Tend'] = cfg['run']['t0'] + nb * cfg['P'] * cfg['level']['dt']
    cfg['nblocks'] = nb
    return cfg


def _other_cfg(r):
    """A differently configured controller that registers extra status variables, hooks and convergence controllers."""
    sc = workloads.c09_real(r)
    cfg = sc['config']
    cfg['hooks'] = ['LogSolution']
    for name, p in cfg['cc']:
        if name.startswith('Adaptivity'):
            p.setdefault('dt_min', cfg['level']['dt'] / 256)
    return cfg


def generate(seed, tier, index):
    r = rng_for(seed, PROP, index)
    cfgs = [_fixed_cfg(r), _fixed_cfg(r), _other_cfg(r)]
    ops = []
    live = set()
    nops = r.randint(3, 8)
    for _ in range(nops):
        c = r.random()
        cid = r.choice([0, 0, 1, 2])
        if cid not in live:
            if cid in (0, 1) and r.random() < 0.15:
                ops.append(['new_polluted', cid, r.choice(['rk', 'adaptive'])])
                live.add(cid)
            elif cid in (0, 1) and r.random() < 0.15 and (1 - cid) not in live:
                ops.append(['new_shared', 0, 1])  # controllers 0 and 1 built from the same dictionaries (config 0)
                live.update([0, 1])
            else:
                ops.append(['new', cid])
                live.add(cid)
            continue
        if cid != 2 and c < 0.08:
            ops.append(['run_abort', cid, r.randint(1, 4)])  # a user hook raises in the middle of this run
        elif cid != 2 and c < 0.2:
            ops.append(['run_interval', cid, r.randint(1, 3)])  # another interval on the same controller
        elif cid == 2 or c < 0.55:
            ops.append(['run', cid])
        elif c < 0.8:
            ops.append(['split', cid, r.random() < 0.5, r.randint(1, 3)])
        else:
            ops.append(['new', cid])  # replace by a fresh controller of the same description
    return {'engine': 'blocksim', 'kind': 'history', 'configs': cfgs, 'ops': ops}


# ----------------------------------------------------------------------------------------------------------------
def _stats_summary(stats):
    out = []
    for k, v in stats.items():
        key = tuple(float(x).hex() if isinstance(x, float) else x for x in tuple(k))
        if k.type.startswith('timing'):
            val = None
        elif isinstance(v, np.ndarray):
            val = 'a:' + bdigest(v)
        elif isinstance(v, (float, np.floating)):
            val = float(v).hex()
        elif isinstance(v, (complex, np.complexfloating)):
            val = (float(v.real).hex(), float(v.imag).hex())
        else:
            val = repr(v)
        out.append((repr(key), val))
    out.sort()
    return out


def _per_step(stats):
    """(time, type) -> value digest for the per-step records used by the split-run comparison."""
    out = {}
    for k, v in stats.items():
        if k.type in ('u', 'niter', 'residual_post_step'):
            val = bdigest(v) if isinstance(v, np.ndarray) else (float(v).hex() if isinstance(v, float) else repr(v))
            out[(struct.pack('<d', k.time).hex(), k.type, k.level, k.iter)] = val
    return out


_KILL = {'at': -1, 'count': 0}
_KILLHOOK = []


class UserAbort(Exception):
    """Raised by the harness hook to model a run that a user's hook aborts with an exception."""


def _kill_hook():
    if not _KILLHOOK:
        from pySDC.core.hooks import Hooks

        class KillHook(Hooks):
            def post_step(self, step, level_number):
                super().post_step(step, level_number)
                _KILL['count'] += 1
                if _KILL['count'] == _KILL['at']:
                    raise UserAbort(f'aborted by a user hook at post_step number {_KILL["at"]}')
                if _KILL['count'] > 4000:
                    raise UserAbort('more than 4000 steps: adaptive run in permanent recovery, aborted identically in the reference')

        _KILLHOOK.append(KillHook)
    return _KILLHOOK[0]


def _build_polluted(cfg, kind):
    """Build the controller of `cfg` from controller_params / sweeper_params dictionaries that were used just before to
    construct a differently configured controller (a Runge-Kutta one, or an adaptive one that registers extra hooks and
    convergence controllers).  pySDC's constructors write into the dictionaries they are given; the later controller must
    not be affected."""
    import logging
    from pySDC.implementations.controller_classes.controller_nonMPI import controller_nonMPI

    hooks = [blocksim.resolve(h) for h in cfg.get('hooks', [])] + [_kill_hook()]
    cp = {'logger_level': 90, 'dump_setup': False, 'hook_class': hooks, **cfg.get('controller', {})}
    swp = dict(cfg['sweeper']['params'])
    pcls = blocksim.resolve('testequation0d')
    other = {
        'problem_class': pcls,
        'problem_params': blocksim.conv_params({'lambdas': [[-1.0, 0.0]], 'u0': 1.0}),
        'sweeper_class': blocksim.resolve('ESDIRK43' if kind == 'rk' else 'generic_implicit'),
        'sweeper_params': swp,
        'level_params': {'dt': 0.1, 'restol': -1.0},
        'step_params': {'maxiter': 1 if kind == 'rk' else 3},
    }
    if kind == 'rk':
        other['convergence_controllers'] = {blocksim.resolve('AdaptivityRK'): {'e_tol': 1e-5}}
    else:
        other['convergence_controllers'] = {blocksim.resolve('Adaptivity'): {'e_tol': 1e-5}}
        cp_first = cp
    try:
        controller_nonMPI(1, cp if kind != 'rk' else dict(cp, mssdc_jac=False), other) if kind == 'rk' else controller_nonMPI(1, _with(cp, 'mssdc_jac', False), other)
    except Exception:  # noqa: BLE001 - the throw-away controller may refuse the combination; what matters is what it left behind
        pass
    logging.getLogger().handlers.clear()
    desc = {
        'problem_class': blocksim.resolve(cfg['problem']['class']),
        'problem_params': blocksim.conv_params(cfg['problem'].get('params', {})),
        'sweeper_class': blocksim.resolve(cfg['sweeper']['class']),
        'sweeper_params': swp,
        'level_params': dict(cfg['level']),
        'step_params': dict(cfg['step']),
    }
    if cfg.get('transfer'):
        desc['space_transfer_class'] = blocksim.resolve(cfg['transfer']['class'])
        desc['space_transfer_params'] = dict(cfg['transfer'].get('params', {}))
    for k, v in cfg.get('controller', {}).items():
        cp[k] = v
    ctrl = controller_nonMPI(cfg['P'], cp, desc)
    logging.getLogger().handlers.clear()
    return ctrl


def _with(d, k, v):
    # same dictionary object, one entry changed for the throw-away controller and changed back by the caller's loop
    d[k] = v
    return d


class _Ctl:
    def __init__(self, cfg, shared=None, polluted=None):
        self.cfg = cfg
        sc = {'config': cfg, 'faults': {}}
        self.ctx = blocksim.Ctx(sc, Result(), EventLog())
        if polluted:
            self.ctrl = _build_polluted(cfg, polluted)
        else:
            self.ctrl = blocksim.build(sc, self.ctx, plain=True, shared=shared, extra_hooks=[_kill_hook()])

    def run(self, t0, Tend, u0=None):
        import warnings

        warnings.simplefilter('ignore')
        np.seterr(all='ignore')
        if u0 is None:
            u0 = blocksim.initial_value(self.ctrl, self.cfg['run'].get('u0', 'exact'), self.cfg['run']['t0'])
        _KILL['count'] = 0
        try:
            uend, stats = self.ctrl.run(u0=u0, t0=t0, Tend=Tend)
            return {'exc': None, 'ret': uend, 'ret_digest': bdigest(uend), 'stats': _stats_summary(stats), 'steps': _per_step(stats)}
        except Exception as e:  # noqa: BLE001
            return {'exc': type(e).__name__, 'ret': None, 'ret_digest': None, 'stats': None, 'steps': None}


def _in_child(fn):
    """Run fn() in a freshly forked child (inherits the warm parent) and return its pickled result."""
    r, w = os.pipe()
    pid = os.fork()
    if pid == 0:
        os.close(r)
        try:
            blob = pickle.dumps(('ok', fn()))
        except BaseException as e:  # noqa: BLE001
            import traceback

            blob = pickle.dumps(('err', traceback.format_exc()))
        with os.fdopen(w, 'wb') as f:
            f.write(blob)
        os._exit(0)
    os.close(w)
    with os.fdopen(r, 'rb') as f:
        data = f.read()
    os.waitpid(pid, 0)
    st, val = pickle.loads(data)
    if st != 'ok':
        raise RuntimeError('reference child failed: ' + val)
    return val


def execute(sc):
    res, log = Result(), EventLog()
    np.random.seed(777)  # the history itself must replay exactly; what it exposes is that results depend on this global state
    cfgs = sc['configs']
    ctl = {}
    ran = {}
    refs = {}

    def ref_run(ci, t0, Tend):
        key = (ci, t0, Tend)
        if key not in refs:
            refs[key] = _in_child(lambda: {k: v for k, v in _Ctl(cfgs[ci]).run(t0, Tend).items() if k != 'ret'})
        return refs[key]

    def V(clause, site, detail, **ident):
        # one known root cause gets its own signature: the sweeper's RandomState for initial_guess='random' is created once
        # in __init__, so a second run on the same controller (or the second leg of a split run) continues / restarts the stream
        if ident.get('initial_guess_random') and (site in ('rerun', 'split_run')):
            res.violate('C19', 'rng_stream_of_random_initial_guess', 'Sweeper.__init__', detail, ident={'root': 'random_state_created_once_per_sweeper'})
        elif ident.get('k_dependent_qi') and site in ('rerun', 'split_run'):
            res.violate('C19', 'sweep_dependent_preconditioner_state', 'Sweeper.updateVariableCoeffs', detail, ident={'root': 'k_dependent_QI_left_at_last_sweep_index'})
        elif ident.get('global_rng_in_transfer'):
            res.violate('C19', 'space_transfer_depends_on_global_numpy_rng', 'transfer_helper.interpolation_matrix_1d', detail, ident={'root': 'scipy_barycentric_random_permutation'})
        else:
            res.violate('C19', clause, site, detail, ident=ident)

    def compare(tag, got, ref, ci, what='run'):
        guess = cfgs[ci]['sweeper']['params'].get('initial_guess', 'spread')
        tf = cfgs[ci].get('transfer') or {}
        ident = {'initial_guess_random': guess == 'random', 'op': tag, 'k_dependent_qi': cfgs[ci]['sweeper']['params'].get('QI') in ('MIN-SR-FLEX', 'MIN_SR_FLEX'), 'global_rng_in_transfer': tf.get('class') == 'mesh_to_mesh' and tf.get('params', {}).get('iorder', 0) >= 6}
        if got['exc'] != ref['exc']:
            V('outcome_differs', what, f'{tag}: outcome {got["exc"]} vs {ref["exc"]} when run alone in a fresh process', **ident)
            return
        if got['exc'] is not None:
            return
        if got['ret_digest'] != ref['ret_digest']:
            V('returned_value_differs', what, f'{tag}: returned value differs bitwise from the same run executed alone in a fresh process', **ident)
        if got['stats'] != ref['stats']:
            gk, rk = {k for k, _ in got['stats']}, {k for k, _ in ref['stats']}
            if gk != rk:
                d = sorted(gk ^ rk)[0]
                V('stats_keys_differ', what, f'{tag}: statistics keys differ from the fresh-process run, e.g. {d}', **ident)
            else:
                d = [k for (k, a), (_, b) in zip(got['stats'], ref['stats']) if a != b][0]
                V('stats_values_differ', what, f'{tag}: statistics values differ from the fresh-process run, e.g. at {d}', **ident)

    for i, op in enumerate(sc['ops']):
        name = op[0]
        log.add('op', i, op)
        if name == 'new':
            ctl[op[1]] = _Ctl(cfgs[op[1]])
            ran[op[1]] = 0
        elif name == 'new_polluted':
            res.probe('dictionaries_used_by_another_controller_before')
            try:
                ctl[op[1]] = _Ctl(cfgs[op[1]], polluted=op[2])
            except Exception as e:  # noqa: BLE001
                # the same description builds fine from fresh dictionaries (every other operation does it)
                V('construction_differs', 'controller construction', f'op {i}: a controller of configuration {op[1]} cannot be built from parameter dictionaries that a {op[2]} controller was built from just before: {type(e).__name__}: {str(e)[:120]}')
                ctl[op[1]] = _Ctl(cfgs[op[1]])
            ran[op[1]] = 0
        elif name == 'new_shared':
            shared = []
            ctl[0] = _Ctl(cfgs[0], shared=shared)
            ctl[1] = _Ctl(cfgs[0], shared=shared)
            ctl[1].cfg_index = 0
            ran[0] = ran[1] = 0
            res.probe('shared_dictionaries')
        elif name == 'run':
            cid = op[1]
            ci = getattr(ctl[cid], 'cfg_index', cid)
            cfg = cfgs[ci]
            t0, Tend = cfg['run']['t0'], cfg['run']['Tend']
            got = ctl[cid].run(t0, Tend)
            ref = ref_run(ci, t0, Tend)
            fixed = ci != 2
            if ran[cid] > 0:
                res.probe('rerun_same_controller')
            if len(ctl) > 1:
                res.probe('interleaved_other_controller')
            if cfg['sweeper']['params'].get('initial_guess') == 'random':
                res.probe('initial_guess_random')
            if 'e_tol' in cfg['level']:
                res.probe('level_status_variable_registered')
            if fixed or ran[cid] == 0:
                compare(f'op {i} run on controller {cid} (run number {ran[cid] + 1} on it)', got, ref, ci, 'rerun' if ran[cid] else 'run')
            if got['exc'] is not None:
                res.probe('run_after_ConvergenceError')
            ran[cid] += 1
            log.add('run', cid, got['exc'], got['ret_digest'])
        elif name == 'run_abort':
            cid, k = op[1], op[2]
            ci = getattr(ctl[cid], 'cfg_index', cid)
            cfg = cfgs[ci]
            _KILL['at'] = k
            got = ctl[cid].run(cfg['run']['t0'], cfg['run']['Tend'])
            _KILL['at'] = -1
            if got['exc'] == 'UserAbort':
                res.probe('run_aborted_by_user_hook')
            ran[cid] += 1  # aborted or not, the controller has been used
            log.add('run_abort', cid, got['exc'])
        elif name == 'run_interval':
            cid, k = op[1], op[2]
            ci = getattr(ctl[cid], 'cfg_index', cid)
            cfg = cfgs[ci]
            span = cfg['P'] * cfg['level']['dt']
            ta = cfg['run']['Tend'] + k * span
            tb = ta + span
            got = ctl[cid].run(ta, tb)
            key = (ci, ta, tb)
            if key not in refs:
                refs[key] = _in_child(lambda: {kk: v for kk, v in _Ctl(cfgs[ci]).run(ta, tb).items() if kk != 'ret'})
            compare(f'op {i} run of another interval [{ta!r}, {tb!r}] on controller {cid} (run number {ran[cid] + 1} on it)', got, refs[key], ci, 'rerun' if ran[cid] else 'run')
            if ran[cid] > 0:
                res.probe('other_interval_on_used_controller')
            ran[cid] += 1
            log.add('run_interval', cid, got['exc'], got['ret_digest'])
        elif name == 'split':
            cid, fresh, j = op[1], op[2], op[3]
            ci = getattr(ctl[cid], 'cfg_index', cid)
            cfg = cfgs[ci]
            if ci == 2:
                continue
            t0, Tend = cfg['run']['t0'], cfg['run']['Tend']
            nb = cfg['nblocks']
            j = 1 + (j - 1) % max(nb - 1, 1)
            Tmid = t0 + j * cfg['P'] * cfg['level']['dt']
            if not (t0 < Tmid < Tend):
                continue
            a = ctl[cid].run(t0, Tmid)
            if a['exc'] is not None:
                continue
            second = _Ctl(cfg) if fresh else ctl[cid]
            b = second.run(Tmid, Tend, u0=a['ret'])
            ref = ref_run(ci, t0, Tend)
            res.probe('split_fresh_controller' if fresh else 'split_same_controller')
            ran[cid] += 1 if fresh else 2
            tf = cfg.get('transfer') or {}
            ident = {'initial_guess_random': cfg['sweeper']['params'].get('initial_guess') == 'random', 'op': 'split', 'k_dependent_qi': cfg['sweeper']['params'].get('QI') in ('MIN-SR-FLEX', 'MIN_SR_FLEX'), 'global_rng_in_transfer': tf.get('class') == 'mesh_to_mesh' and tf.get('params', {}).get('iorder', 0) >= 6}
            if b['exc'] is not None or ref['exc'] is not None:
                if b['exc'] != ref['exc']:
                    V('outcome_differs', 'split_run', f'op {i}: split run outcome {b["exc"]} vs uninterrupted {ref["exc"]}', **ident)
                continue
            if b['ret_digest'] != ref['ret_digest']:
                V('split_result_differs', 'split_run', f'op {i}: stopping at the block boundary t={Tmid!r} and continuing ({"fresh" if fresh else "same"} controller) gives a different final value than the uninterrupted run', fresh=fresh, **ident)
            merged = dict(a['steps'])
            merged.update(b['steps'])
            if merged != ref['steps']:
                V('split_records_differ', 'split_run', f'op {i}: concatenated per-step records of the split run differ from the uninterrupted run', fresh=fresh, **ident)
            log.add('split', cid, fresh, j, b['ret_digest'])
    nctl = len({o[1] for o in sc['ops'] if o[0] in ('run', 'split', 'run_interval', 'run_abort')})
    res['ticks'] = len(sc['ops'])
    res['nontrivial'] = (len(sc['ops']) >= 3 and nctl >= 2) or any(o[0] == 'split' for o in sc['ops']) or bool(res['probes'].get('rerun_same_controller'))
    return res.finish(log)


def shrink(sc):
    ops = sc['ops']
    for i in range(len(ops) - 1, -1, -1):
        s2 = copy.deepcopy(sc)
        del s2['ops'][i]
        # an op on a controller that was never created makes no sense
        live = set()
        ok = True
        for o in s2['ops']:
            if o[0] in ('new', 'new_polluted'):
                live.add(o[1])
            elif o[0] == 'new_shared':
                live.update([0, 1])
            elif o[1] not in live:
                ok = False
        if ok:
            yield s2
    for ci in (0, 1):
        cfg = sc['configs'][ci]
        if cfg['P'] > 1:
            s2 = copy.deepcopy(sc)
            c = s2['configs'][ci]
            c['P'] = 1
            c['run']['Tend'] = c['run']['t0'] + c['nblocks'] * c['level']['dt']
            yield s2
        nn = cfg['sweeper']['params'].get('num_nodes')
        if isinstance(nn, list):
            s2 = copy.deepcopy(sc)
            c = s2['configs'][ci]
            c['sweeper']['params']['num_nodes'] = nn[0]
            if isinstance(c['level'].get('nsweeps'), list):
                c['level']['nsweeps'] = c['level']['nsweeps'][0]
            c['transfer'] = None
            c['controller']['predict_type'] = None
            if isinstance(c['problem']['params'].get('nvars'), list):
                c['problem']['params']['nvars'] = c['problem']['params']['nvars'][0]
            yield s2
        if cfg['hooks']:
            s2 = copy.deepcopy(sc)
            s2['configs'][ci]['hooks'] = []
            yield s2
