"""C09 -- restarts and step-size control keep their promises for every failure sequence (engine: blocksim)."""
from sim.core.base import rng_for, Result, EventLog
from sim import blocksim, workloads, oracles

PROP = 'C09'
LEVEL = 'exploration'
RULE = (
    'A run is one fault sequence on the real controller_nonMPI with the real Adaptivity/AdaptivityRK, StepSizeLimiter, '
    'StepSizeSlopeLimiter, BasicRestartingNonMPI and SpreadStepSizesBlockwiseNonMPI. Part A (stub physics): error estimates come '
    'from a script with a physical background c*dt^(order+1) times noise plus injected excursions, exact ties and runs of failures '
    'longer than the retry budget, and direct restart requests; part B: real adaptive runs (embedded SDC estimate, embedded RK, polynomial-interpolation and extrapolation estimates on converged collocation problems) on '
    'van der Pol / Lorenz / test equation with random tolerances. Monitors at control orders -49 and 97 read the proposal before '
    'and after the limiters. Oracles R1 (restart position/value), R2 (one dt per block), R3 (retry budget, counter hand-over, '
    'progress), R4 (accept criterion), R5 (proposal formula and limiter reference), R6 (retry is smaller). Non-trivial = at least '
    'one restart happened; distinct = distinct event-log digest.'
)
COMPONENTS_REAL = ['Adaptivity, AdaptivityRK, EstimateEmbeddedError, StepSizeLimiter, StepSizeSlopeLimiter, BasicRestartingNonMPI, SpreadStepSizesBlockwiseNonMPI', 'controller_nonMPI', 'generic_implicit / RK sweepers, testequation0d, vanderpol, LorenzAttractor']
COMPONENTS_STUB = ['part A: the value of the embedded error estimate is overwritten by the script at control order -60 (after the real estimator, before Adaptivity)']
ASSUMPTIONS = ['beta = 1 with an exact tie is left out (the formula then proposes the same step again)', 'liveness is not asserted for adversarial scripts without dt_min: runs that hit the block/step cap are skipped and counted',
               'part B drives Adaptivity (embedded SDC), AdaptivityRK (embedded RK), AdaptivityPolynomialError and AdaptivityExtrapolationWithinQ; AdaptivityCollocation and AdaptivityResidual are not driven']
PROBES = ['restart_at_later_slot', 'same_step_restarted_twice', 'retry_budget_exhausted_crash', 'retry_budget_exhausted_moved_on', 'exact_tie_e_est_equals_e_tol', 'restart_near_Tend', 'step_size_changed', 'converged_collocation_proposal_checked', 'collocation_problem_not_converged_restart']


def plan(tier):
    if tier == 'thorough':
        return {'n': 300000, 'chunk': 300, 'timeout': 300, 'selftest': 60, 'budget_s': 3000, 'minimize_s': 300}
    return {'n': 4500, 'chunk': 90, 'timeout': 300, 'selftest': 12, 'budget_s': 900, 'minimize_s': 120}


def generate(seed, tier, index):
    r = rng_for(seed, PROP, index)
    if r.random() < 0.15:
        return workloads.c09_real(r)
    return workloads.c09_injected(r)


def execute(sc):
    res, log = Result(), EventLog()
    tr = blocksim.run(sc, res, log)
    oracles.oracle_c09(tr, sc)
    oracles.probes_c06(tr, sc)
    oracles.probes_c09(tr, sc)
    res['nontrivial'] = any(not a.get('accepted', True) for a in tr.ctx.attempts if a.get('post'))
    return res.finish(log)


def shrink(sc):
    return workloads.shrink_history(sc)
