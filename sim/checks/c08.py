"""C08 -- MPI-parallel variants equal their serial counterparts under every schedule (engine: simmpi)."""
import copy

import numpy as np

import sim
from sim import simmpi

simmpi.install_fake_mpi()  # before any pySDC module that imports mpi4py is loaded in this process

from sim.core.base import rng_for, Result, EventLog, bdigest  # noqa: E402
from sim import blocksim, workloads, physics, oracles  # noqa: E402

PROP = 'C08'
LEVEL = 'exploration'
RULE = (
    'A run is one execution of the real controller_MPI (and, for node-parallel configurations, generic_implicit_MPI / '
    'imex_1st_order_MPI + base_transfer_MPI, and the MPI flavours of the convergence controllers) on a simulated MPI: ranks are '
    'threads of which exactly one runs at a time, a seeded scheduler (uniform / PCT priorities / starve-one / run-ahead / round-robin / lowest- or highest-rank-first / whole rows or columns of the rank grid first) '
    'decides the interleaving at every MPI call, when each matched non-blocking operation completes, whether a standard send buffers, '
    'which collective members leave early, and scribbles pending receive buffers with NaN. The serial counterpart (controller_nonMPI with '
    'the serial sweeper/transfer/convergence-controller flavours, same description, same injected scripts) runs in the same process. '
    'Compared per step attempt: start time (rounding), step size, iteration count, restart flag, restart counter, end value (bitwise when '
    'only time-parallel), returned value on the ranks of the last block, logged solutions; plus no deadlock, no unmatched/incomplete '
    'message, collectives entered consistently, no send buffer modified before completion, termination. Non-trivial = at least 2 ranks; '
    'distinct = distinct event-log digest (the log contains every scheduling decision).'
)
COMPONENTS_REAL = ['controller_MPI', 'generic_implicit_MPI, imex_1st_order_MPI (SweeperMPI)', 'base_transfer_MPI', 'BasicRestartingMPI, SpreadStepSizesBlockwiseMPI, CheckConvergence.communicate_convergence, Adaptivity, EstimateEmbeddedError (MPI flavours)', 'mesh.isend/irecv/bcast', 'controller_nonMPI and serial flavours (reference)']
COMPONENTS_STUB = ['mpi4py itself: /verif/sim/fake_mpi4py implements the subset of MPI semantics the code uses (weakest behaviour the standard allows)']
ASSUMPTIONS = [
    'the simulated MPI follows the MPI standard as read; it is not validated against a real MPI library (none installable here)',
    'ranks share one interpreter: class-level state that real ranks hold privately is shared (audited: FrozenClass.attrs append-only, mesh.comm stays None)',
    'the interrupt-based iteration estimator (Ibcast/Cancel) is excluded, as the property says',
    'a dropped, never-waited request of a non-blocking send is recorded as a probe, not judged',
]
PROBES = ['send_buffered', 'send_rendezvous', 'collective_early_exit', 'recv_posted_before_send', 'recv_buffer_scribbled_while_pending',
          'request_dropped_while_pending', 'restart_happened', 'node_parallel', 'multi_level', 'adaptive']
STRATEGIES = ['random', 'random', 'pct', 'starve', 'runahead', 'rr', 'lowest', 'highest', 'rowprio', 'rowprio']
DIAG_QI = ['MIN-SR-S', 'MIN-SR-NS', 'IEpar', 'MIN', 'Qpar']


def plan(tier):
    if tier == 'thorough':
        return {'n': 120000, 'chunk': 60, 'timeout': 600, 'selftest': 40, 'budget_s': 3000, 'minimize_s': 600}
    return {'n': 1600, 'chunk': 25, 'timeout': 600, 'selftest': 10, 'budget_s': 900, 'minimize_s': 180}


def _sched(r):
    return {
        'seed': r.randrange(1 << 30),
        'strategy': r.choice(STRATEGIES),
        'p_buffer': r.choice([0.0, 0.5, 0.5, 1.0]),
        'p_early': r.choice([0.0, 0.5, 1.0]),
        'p_scribble': r.choice([0.0, 0.3, 1.0]),
        'p_read_at_post': r.choice([0.0, 0.5, 1.0]),
        'p_only_at_wait': r.choice([0.0, 0.25, 0.6]),
        'delays': r.choice([[0], [0, 0, 1, 3, 10], [5, 20, 50]]),
        'max_tests': r.choice([1, 6, 20]),
        'step_cap': 120000,
    }


def generate(seed, tier, index):
    r = rng_for(seed, PROP, index)
    c = r.random()
    S = 1
    if c < 0.35:
        # stub physics, time-parallel, with restart / step-size scripts and the MPI convergence controllers
        if r.random() < 0.5:
            sc = workloads.c09_injected(r, hooks=['LogSolution'])
            sc['config']['P'] = r.randint(1, 4)
        else:
            sc = workloads.history_config(r, hooks=['LogSolution'])
            sc['config']['P'] = r.randint(1, 5)
            sc['config']['run'].pop('legs', None)
            cfg = sc['config']
            if sc['faults'].get('verdicts'):
                # restart requests issued in the middle of the iteration of a step that keeps iterating while others finish do not
                # occur with any shipped controller (restarts are decided at the final iteration); the two flavours of
                # BasicRestarting propagate them differently (stale MPI buffer vs reset serial buffer).  Not part of this workload.
                sc['faults']['restarts'] = []
                sc['faults'].pop('restart_any_iter', None)
            span = cfg['run']['Tend'] - cfg['run']['t0']
            cfg['run']['Tend'] = cfg['run']['t0'] + min(span, 24 * cfg['level']['dt'])
            if cfg['sweeper']['params'].get('do_coll_update'):
                cfg['sweeper']['params'].pop('do_coll_update')
                cfg['sweeper']['params']['quad_type'] = 'RADAU-RIGHT'
    elif c < 0.45:
        # real adaptive SDC runs (no script): Adaptivity with the standard or the linearized embedded estimate, time-parallel
        for _ in range(20):
            sc = workloads.c09_real(r)
            if sc['config']['cc'][0][0] == 'Adaptivity':
                break
        cfg = sc['config']
        cfg['P'] = r.randint(1, 4)
        cfg['hooks'] = ['LogSolution']
        cfg['cc'][0][1]['embedded_error_flavor'] = r.choice(['standard', 'linearized', 'linearized'])
        cfg['cc'][0][1].setdefault('dt_min', cfg['level']['dt'] / 128)
        cfg['run']['Tend'] = cfg['run']['t0'] + min(cfg['run']['Tend'] - cfg['run']['t0'], 10 * cfg['level']['dt'])
    elif c < 0.75:
        sc = physics.gen_config(r, allow_faults=False)
        cfg = sc['config']
        cfg['P'] = r.randint(1, 5)
        cfg['hooks'] = ['LogSolution']
        sc['shadow'] = False
        sp = cfg['sweeper']['params']
        if sp.get('initial_guess') == 'random':
            sp['initial_guess'] = 'spread'
        if sp.get('quad_type') not in ('RADAU-RIGHT', 'LOBATTO') or sp.get('do_coll_update'):
            sp['quad_type'] = 'RADAU-RIGHT'
            sp.pop('do_coll_update', None)
        nb = r.choice([1, 2, 3])
        cfg['run']['Tend'] = cfg['run']['t0'] + nb * cfg['P'] * cfg['level']['dt'] * r.choice([1.0, 1.0, 0.8])
        cfg['step']['maxiter'] = min(cfg['step']['maxiter'], 12)
    else:
        # node-parallel sweepers (diagonal preconditioners), optionally x time-parallel
        for _ in range(50):
            sc = physics.gen_config(r, allow_faults=False)
            if sc['config']['sweeper']['class'] in ('generic_implicit', 'imex_1st_order', 'explicit'):
                break
        cfg = sc['config']
        sp = cfg['sweeper']['params']
        if cfg['sweeper']['class'] == 'explicit':
            cfg['sweeper']['class'] = 'generic_implicit'
            sp.pop('QE', None)
        sp['QI'] = r.choice(DIAG_QI)
        if 'QE' in sp:
            sp['QE'] = 'PIC'
        sp['quad_type'] = 'RADAU-RIGHT'
        sp.pop('do_coll_update', None)
        if sp.get('initial_guess') == 'random':
            sp['initial_guess'] = 'spread'
        nn = sp['num_nodes']
        M = r.choice([2, 3, 4])
        sp['num_nodes'] = [M] * len(nn) if isinstance(nn, list) else M
        S = M
        cfg['P'] = r.choice([1, 1, 2, 3]) if M <= 3 else r.choice([1, 2])
        cfg['hooks'] = ['LogSolution']
        sc['shadow'] = False
        cfg['run']['Tend'] = cfg['run']['t0'] + r.choice([1, 2]) * cfg['P'] * cfg['level']['dt']
        cfg['step']['maxiter'] = min(cfg['step']['maxiter'], 10)
        cfg['level']['residual_type'] = r.choice(['full_abs', 'last_abs'])
    cfg = sc['config']
    if cfg['P'] > 1 and not isinstance(cfg['sweeper']['params'].get('num_nodes'), list) and not cfg['controller'].get('mssdc_jac', True):
        # single-level Gauss-Seidel multi-step: controller_MPI asserts one sweep per iteration (explicit refusal, not a defect)
        cfg['level']['nsweeps'] = 1
    sc['engine'] = 'simmpi'
    sc['S'] = S
    sc['max_events'] = 40000  # runs in permanent recovery (step size collapsing) are skipped, in both flavours
    sc['max_blocks'] = 120
    sc['sched'] = _sched(r)
    sc.pop('spy_stats', None)
    return sc


# ----------------------------------------------------------------------------------------------------------------
def _close(a, b, tol):
    return abs(a - b) <= tol


def execute(sc):
    res, log = Result(), EventLog()
    V = lambda clause, site, detail, **ident: res.violate('C08', clause, site, detail, ident=ident)  # noqa: E731
    cfg = sc['config']
    T, S = cfg['P'], sc.get('S', 1)
    # ---- serial counterpart (same description, same scripts)
    ser_res, ser_log = Result(), EventLog()
    ser = blocksim.run({k: v for k, v in sc.items() if k not in ('sched', 'S', 'engine')}, ser_res, ser_log)
    ser_att = {(a['block'], a['slot']): a for a in simmpi.summarize_attempts(ser.ctx)}
    if ser.exc and ser.exc[0] == 'StepCapExceeded':
        res.probe('skipped_step_cap')
        res['nontrivial'] = False
        return res.finish(log)
    # ---- the MPI flavour under the seeded schedule
    outcome, world, recs = simmpi.run_mpi(sc, res, log)
    log.add('outcome', outcome)
    forced_later = any(w == 'done' and s_ >= 1 for _, s_, _, w in sc['faults'].get('force', []))
    _br = next((p for n_, p in cfg.get('cc', []) if n_.startswith('BasicRestarting')), {})
    _ad = next((p for n_, p in cfg.get('cc', []) if n_ == 'Adaptivity'), None)
    _uneven = cfg['level'].get('restol', -1) >= 0 or bool(sc['faults'].get('verdicts')) or bool(_ad and _ad.get('avoid_restarts')) or any(w == 'done' for _, _, _, w in sc['faults'].get('force', []))
    for clause, site, detail, ident in world.violations:
        if T > 1 and _br.get('restart_from_first_step') and _uneven and clause in ('collective_mismatch', 'deadlock', 'collective_incomplete', 'unmatched_send', 'unmatched_recv', 'incomplete_recv'):
            V('collectives_of_restart_from_first_step', 'BasicRestartingMPI.determine_restart', detail, root='collectives_inside_iteration_need_equal_iteration_counts')
            continue
        if clause == 'deadlock' and forced_later:
            V('deadlock_after_forced_stop', 'CheckConvergence.communicate_convergence', detail, root='force_done_skips_status_handshake')
        elif clause in ('unmatched_send', 'unmatched_recv', 'incomplete_recv', 'collective_incomplete') and forced_later:
            # the status message sent to a rank that was forced to stop (and skipped the handshake) is never received
            V('forced_stop_handled_differently', 'CheckConvergence.communicate_convergence', detail, root='force_done_skips_status_handshake')
        else:
            V(clause, site, detail, **ident)
    if outcome == 'step_cap':
        V('termination', 'simulated MPI', f'no termination within {world.step_cap} scheduling decisions (serial run: {ser.exc or "finished"})')
    errors = [r['error'] for r in recs if r['error'] and r['error'][0] != 'SimAbort']
    if any(e[0] == 'StepCapExceeded' for e in errors):
        res.probe('skipped_step_cap')
        res['nontrivial'] = False
        return res.finish(log)
    mpi_exc = errors[0][0] if errors else None
    ser_exc = ser.exc[0] if ser.exc else None
    if ser_exc == 'StepCapExceeded':
        res.probe('skipped_step_cap')
        res['nontrivial'] = False
        return res.finish(log)
    for e in errors:
        if e[0] not in ('ConvergenceError',):
            if e[0] == 'NotSimulated':
                raise RuntimeError('simulated MPI: ' + e[1])
            V('unexpected_exception', e[0], e[1] + ' | ' + (e[2][-400:] if len(e) > 2 else ''))
    if outcome in ('finished', 'aborted') and (mpi_exc or None) != (ser_exc or None) and not res['violations']:
        V('outcome_differs', 'controller_MPI.run', f'MPI run: {mpi_exc or "finished"}, serial run: {ser_exc or "finished"}')
    # ---- two more known root causes, recognised from the configuration (everything else stays reportable)
    br_p = next((p for n_, p in cfg.get('cc', []) if n_.startswith('BasicRestarting')), {})
    ad_p = next((p for n_, p in cfg.get('cc', []) if n_ == 'Adaptivity'), None)
    uneven = cfg['level'].get('restol', -1) >= 0 or bool(sc['faults'].get('verdicts')) or bool(ad_p and ad_p.get('avoid_restarts')) or any(w == 'done' for _, _, _, w in sc['faults'].get('force', []))
    rffs_uneven = T > 1 and br_p.get('restart_from_first_step') and uneven
    lin_avoid = T > 1 and ad_p is not None and ad_p.get('avoid_restarts') and ad_p.get('embedded_error_flavor') == 'linearized'
    if rffs_uneven or lin_avoid:
        _V0 = V

        def V(clause, site, detail, **ident):  # noqa: F811
            if rffs_uneven and clause in ('collective_mismatch', 'deadlock', 'collective_incomplete', 'unmatched_send', 'unmatched_recv', 'incomplete_recv', 'outcome_differs', 'termination'):
                _V0('collectives_of_restart_from_first_step', 'BasicRestartingMPI.determine_restart', detail, root='collectives_inside_iteration_need_equal_iteration_counts')
            elif lin_avoid and clause in ('niter_differs', 'value_differs', 'returned_value_differs', 'logged_value_differs', 'dt_differs', 'restart_differs', 'attempts_differ', 'restart_counter_differs', 'step_time_differs'):
                _V0('linearized_estimate_after_predecessor_finished', 'EstimateEmbeddedErrorLinearized', detail, root='serial_flavour_resets_accumulated_error_when_predecessor_is_done')
            else:
                _V0(clause, site, detail, **ident)

    forced_any = any(w == 'done' for _, _, _, w in sc['faults'].get('force', []))
    if forced_any:
        # status.force_done is handled differently by the two flavours (F14): controller_MPI skips the status handshake
        # (deadlock, or with all_to_done spreads the flag to all ranks), the serial controller makes the step wait
        _V = V

        def V(clause, site, detail, **ident):  # noqa: F811
            if clause in ('niter_differs', 'value_differs', 'attempts_differ', 'returned_value_differs', 'logged_value_differs', 'restart_differs', 'restart_counter_differs', 'dt_differs', 'step_time_differs', 'outcome_differs'):
                _V('forced_stop_handled_differently', 'CheckConvergence.communicate_convergence', detail, root='force_done_skips_status_handshake')
            else:
                _V(clause, site, detail, **ident)

    if outcome == 'finished' and not errors:
        node_par = S > 1
        # gather attempts of all ranks
        mpi_att = {}
        for r in recs:
            rec = r['rec']
            for a in rec['attempts']:
                mpi_att.setdefault((a['block'], a['slot']), []).append((rec['node_rank'], a))
        if set(mpi_att) != set(ser_att):
            only_m, only_s = sorted(set(mpi_att) - set(ser_att)), sorted(set(ser_att) - set(mpi_att))
            Tend, t0 = cfg['run']['Tend'], cfg['run']['t0']
            rho = 4 * np.finfo(float).eps * max(abs(t0), abs(Tend), 1.0) * (len(ser_att) + len(mpi_att) + T)
            extra = [mpi_att[k][0][1] for k in only_m] + [ser_att[k] for k in only_s]
            if extra and all(a['t'] >= Tend - rho for a in extra):
                V('sliver_step_differs', 'run', f'one flavour takes an extra step whose start time {extra[0]["t"]!r} lies within rounding of Tend={Tend!r} (MPI computes tend+sum(dt), serial accumulates t+dt): only in MPI {only_m[:3]}, only in serial {only_s[:3]}', kind='sliver_step_at_Tend')
            else:
                V('attempts_differ', 'controller_MPI.run', f'step attempts (block, slot) only in the MPI run: {only_m[:4]}, only in the serial run: {only_s[:4]}', more_in_mpi=bool(only_m))
        sliver = any(v['clause'] == 'sliver_step_differs' for v in res['violations'])
        # start times are only defined up to the rounding of |t|; relative to the step size this is what the reach-Tend cap
        # (and through it the values) can legitimately differ by between the two ways of computing times
        dts = [a['dt'] for a in ser_att.values() if a['dt']]
        t_scale = max(abs(cfg['run']['t0']), abs(cfg['run']['Tend']), 1.0)
        rel_round = 16 * np.finfo(float).eps * t_scale * (T + 1) / (min(dts) if dts else 1.0)
        tol_dt = max(1e-9, rel_round)
        tol_val = max(1e-8, 1e2 * rel_round)
        # the linearized estimate is a difference of accumulated increments (cancellation down to the size of e_tol); the MPI flavour adds
        # the contributions of the ranks in another order than the serial list sum, so the estimate - and through (tol/err)^(1/order) the
        # step sizes, times and values - agree only to ~eps/e_est relative, not to eps
        lin_cfg = T > 1 and ad_p is not None and ad_p.get('embedded_error_flavor') == 'linearized'
        span = abs(cfg['run']['Tend'] - cfg['run']['t0'])
        if lin_cfg:
            tol_dt, tol_val = max(tol_dt, 1e-6), max(tol_val, 1e-5)
        exact = True  # as long as every start time and step size so far agreed bitwise, values must agree bitwise as well
        first_sliver_block = min([k[0] for k in (set(mpi_att) ^ set(ser_att))], default=None) if sliver else None
        for key in sorted(set(mpi_att) & set(ser_att)):
            if first_sliver_block is not None and key[0] >= first_sliver_block:
                continue  # everything after the block in which only one flavour performs the sliver step is a consequence of F13
            sa = ser_att[key]
            for node_rank, ma in mpi_att[key]:
                if ma['t'] != sa['t'] or ma['dt'] != sa['dt']:
                    # the two flavours compute start times differently (tend+sum(dt) vs t+dt); from here on step sizes capped by
                    # the reach-Tend rule and values of non-autonomous problems may differ by rounding
                    exact = False
                tol_t = 4 * np.finfo(float).eps * max(abs(sa['t']), 1.0) * (T + 1) * 8 + (1e-6 * span if lin_cfg else 0.0)
                if not _close(ma['t'], sa['t'], tol_t):
                    V('step_time_differs', 'controller_MPI.run', f'block {key[0]} slot {key[1]}: start time {ma["t"]!r} vs serial {sa["t"]!r}')
                if abs(ma['dt'] - sa['dt']) > tol_dt * abs(sa['dt']):
                    V('dt_differs', 'step size control', f'block {key[0]} slot {key[1]}: dt {ma["dt"]!r} vs serial {sa["dt"]!r}')
                if ma['post'] != sa['post']:
                    V('attempts_differ', 'controller_MPI.run', f'block {key[0]} slot {key[1]}: finished={ma["post"]} vs serial {sa["post"]}')
                    continue
                if not ma['post']:
                    continue
                if bool(ma['restart_final']) != bool(sa['restart_final']):
                    V('restart_differs', 'BasicRestartingMPI', f'block {key[0]} slot {key[1]}: restart flag {ma["restart_final"]} vs serial {sa["restart_final"]}')
                if (ma['restarts_in_a_row'] or 0) != (sa['restarts_in_a_row'] or 0):
                    V('restart_counter_differs', 'BasicRestartingMPI', f'block {key[0]} slot {key[1]}: restarts in a row {ma["restarts_in_a_row"]} vs serial {sa["restarts_in_a_row"]}')
                if not node_par:
                    if ma['iter'] != sa['iter']:
                        V('niter_differs', 'controller_MPI.it_check', f'block {key[0]} slot {key[1]}: {ma["iter"]} iterations vs serial {sa["iter"]}')
                    if exact and ma['uend'] != sa['uend']:
                        V('value_differs', 'controller_MPI', f'block {key[0]} slot {key[1]}: end value differs bitwise from the serial run')
                    elif not exact:
                        a1, a2 = np.asarray(ma['uend_arr']).reshape(-1), np.asarray(sa['uend_arr']).reshape(-1)
                        d = float(np.max(np.abs(a1 - a2))) if a1.size else 0.0
                        if d > tol_val * max(float(np.max(np.abs(a2))) if a2.size else 0.0, 1e-300):
                            V('value_differs', 'controller_MPI', f'block {key[0]} slot {key[1]}: end value differs from the serial run by {d:.3e} (times/step sizes differ by rounding only)')
                else:
                    # node-parallel reductions re-associate sums: compare within a rounding bound scaled by the iteration count
                    a1, a2 = np.asarray(ma['uend_arr']).reshape(-1), np.asarray(sa['uend_arr']).reshape(-1)
                    scale = max(float(np.max(np.abs(a2))) if a2.size else 0.0, 1e-300)
                    restol = cfg['level']['restol']
                    # re-association of the node sums changes the last bits only; amplified over the iterations this stays far
                    # below 1e-9 relative for the contractive configurations generated here
                    budget = 1e-9 * scale
                    same_iter = ma['iter'] == sa['iter']
                    if same_iter and float(np.max(np.abs(a1 - a2))) > budget:
                        V('value_differs', 'SweeperMPI', f'block {key[0]} slot {key[1]} (node rank {node_rank}): end value differs from the serial run by {float(np.max(np.abs(a1 - a2))):.3e} (allowed {budget:.3e})')
                    margin = sa['residual'] is not None and restol > 0 and abs(sa['residual'] - restol) <= 1e-6 * restol
                    if not same_iter and not margin and not (sa['residual'] is not None and restol > 0 and sa['residual'] > 0.5 * restol and sa['residual'] < 2 * restol):
                        V('niter_differs', 'SweeperMPI', f'block {key[0]} slot {key[1]} (node rank {node_rank}): {ma["iter"]} iterations vs serial {sa["iter"]} (serial residual {sa["residual"]!r}, restol {restol!r})')
        # returned value on the ranks that take part in the last block
        last_block = max(b for b, _ in ser_att) if ser_att else -1
        last_slots = {s for b, s in ser_att if b == last_block}
        for r in recs:
            rec = r['rec']
            if rec['time_rank'] in last_slots and rec['nblocks'] - 1 >= last_block and ser.ret is not None and not sliver:
                if not node_par and exact and rec['ret'] != bdigest(ser.ret):
                    V('returned_value_differs', 'controller_MPI.run', f'time rank {rec["time_rank"]}: value returned by run() differs bitwise from the serial run')
            if rec['u0_modified']:
                V('caller_u0_modified', 'controller_MPI.run', f'rank {r["rank"]}: the caller\'s initial value was modified')
        # logged solutions (LogSolution) vs the serial run
        if ser.stats is not None and not node_par and exact and not sliver:
            su = {}
            for k, v in ser.stats.items():
                if k.type == 'u':
                    su[(k.process, k.iter, k.num_restarts, float(k.time).hex())] = bdigest(v)
            for r in recs:
                rec = r['rec']
                for k, v in (rec.get('stats') or {}).items():
                    if k.type == 'u':
                        kk = (k.process, k.iter, k.num_restarts, float(k.time).hex())
                        if kk in su and su[kk] != bdigest(v):
                            V('logged_value_differs', 'LogSolution', f'time rank {rec["time_rank"]}: the solution logged for the step ending at t={k.time!r} (slot {k.process}) differs from the serial run', last_rank=rec['time_rank'] == max(last_slots) if last_slots else None)
                            break
    if any(a.get('restart_final') for a in ser_att.values()):
        res.probe('restart_happened')
    if S > 1:
        res.probe('node_parallel')
    if isinstance(cfg['sweeper']['params'].get('num_nodes'), list):
        res.probe('multi_level')
    if any(n.startswith('Adaptivity') for n, _ in cfg.get('cc', [])):
        res.probe('adaptive')
    res['info']['ranks'] = T * S
    res['info']['sched_decisions'] = world.decisions
    res['model_time'] = ser_res['model_time']
    res['nontrivial'] = T * S >= 2
    return res.finish(log)


def shrink(sc):
    # simpler schedule first (towards the canonical round-robin, no buffering, no delays), then the workload
    sd = sc['sched']
    canon = {'strategy': 'rr', 'p_buffer': 0.0, 'p_early': 0.0, 'p_scribble': 0.0, 'p_read_at_post': 1.0, 'p_only_at_wait': 0.0, 'delays': [0], 'max_tests': 1}
    for k, v in canon.items():
        if sd.get(k) != v:
            s2 = copy.deepcopy(sc)
            s2['sched'][k] = v
            yield s2
    for s2 in workloads.shrink_history(sc):
        if sc.get('S', 1) > 1:
            nn = s2['config']['sweeper']['params'].get('num_nodes')
            s2['S'] = nn[0] if isinstance(nn, list) else nn
        yield s2
