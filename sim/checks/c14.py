"""C14 -- statistics are a faithful, uniquely keyed record of the run (engine: blocksim; rides on C06/C07/C09 histories)."""
from sim.core.base import rng_for, Result, EventLog
from sim import blocksim, workloads, oracles

PROP = 'C14'
LEVEL = 'exploration'
RULE = (
    'A run is one restart/step-size/convergence history of the real controller_nonMPI (the generators of C06, C07 and C09-A) with '
    'every shipped per-step logging hook the 1-dof problem supports enabled. The reference is the observer\'s own event log, '
    'counting subclasses of the problem (independent eval_f counts) and a spy on Hooks.add_to_stats. Checked: one record per '
    'accepted step and quantity after filter_stats(recomputed=False), key fields, values, collisions, and filter/sort helpers '
    'against reference comprehensions on the recorded dictionaries. Non-trivial = a restart or step-size change happened; '
    'distinct = distinct event-log digest.'
)
COMPONENTS_REAL = ['core/hooks.Hooks', 'helpers/stats_helper', 'DefaultHooks, LogWork, LogSDCIterations, LogSolution, LogRestarts, LogStepSize, LogGlobalErrorPostStep, LogLocalErrorPostStep, LogEmbeddedErrorEstimate(PostIter), CPUTimings', 'controller_nonMPI + BasicRestarting + SpreadStepSizes + limiters']
COMPONENTS_STUB = ['restart requests / step-size proposals / convergence verdicts are scripted (same injectors as C06/C07/C09)']
ASSUMPTIONS = ['timing_* records and the internal _recomputed markers are excluded from collision and per-step checks', 'work counters checked for level 0 of the 1-dof problem (rhs evaluations)']
PROBES = ['restart_at_later_slot', 'same_step_restarted_twice', 'two_steps_same_end_time', 'step_size_changed', 'run_aborted_ConvergenceError']
HOOKS = ['LogSolution', 'LogWork', 'LogSDCIterations', 'LogStepSize', 'LogGlobalErrorPostStep', 'LogLocalErrorPostStep']


def plan(tier):
    if tier == 'thorough':
        return {'n': 300000, 'chunk': 300, 'timeout': 300, 'selftest': 60, 'budget_s': 3000, 'minimize_s': 300}
    return {'n': 3500, 'chunk': 70, 'timeout': 300, 'selftest': 12, 'budget_s': 900, 'minimize_s': 120}


def generate(seed, tier, index):
    r = rng_for(seed, PROP, index)
    c = r.random()
    if c < 0.6:
        sc = workloads.history_config(r, hooks=HOOKS)
    elif c < 0.75:
        sc = workloads.c07_random(r, tier)
        sc['config']['hooks'] = list(HOOKS)
        if r.random() < 0.2:
            # two-digit iteration counts (sorting by iter must be numeric)
            sc['config']['step']['maxiter'] = 12
            sc['max_events'] = sc['max_events'] * 4
    else:
        sc = workloads.c09_injected(r, hooks=HOOKS)
    if abs(sc['config']['run']['t0']) > 10 or abs(sc['config']['run']['Tend']) > 10 or sc.get('axis_kind') == 'adaptive' or sc['faults'].get('dtnew'):
        # relative errors against an exact solution that underflows to 0 are the workload's fault, not pySDC's
        sc['config']['hooks'] = [h for h in sc['config']['hooks'] if 'Error' not in h]
    if r.random() < 0.3:
        # further shipped hooks in the user's list, at a drawn position (subclasses of hooks that convergence controllers register themselves)
        extra = r.choice([['LogEmbeddedErrorEstimatePostIter'], ['LogEmbeddedErrorEstimatePostIter', 'LogEmbeddedErrorEstimate'], ['LogEmbeddedErrorEstimate']])
        for h in extra:
            sc['config']['hooks'].insert(r.randint(0, len(sc['config']['hooks'])), h)
    if r.random() < 0.3:
        sc['between_steps_work'] = r.randint(1, 3)  # a trailing user hook evaluates the right-hand side after every step
    sc['spy_stats'] = True
    sc['oracle_seed'] = r.randrange(1 << 30)
    return sc


def execute(sc):
    import random

    res, log = Result(), EventLog()
    tr = blocksim.run(sc, res, log, counting=True)
    oracles.oracle_c14(tr, sc, random.Random(f"c14/{sc.get('oracle_seed', 0)}"))
    oracles.probes_c06(tr, sc)
    res['nontrivial'] = any(not a.get('accepted', True) for a in tr.ctx.attempts) or len({a['dt'] for a in tr.ctx.attempts}) > 1
    return res.finish(log)


def shrink(sc):
    return workloads.shrink_history(sc)
