"""C01 -- converged SDC/MLSDC/PFASST returns the fine collocation solution (engine: blocksim, real physics)."""
from sim.core.base import rng_for, Result, EventLog
from sim import blocksim, physics, oracles, workloads

PROP = 'C01'
LEVEL = 'exploration'
RULE = (
    'A run is one whole multi-party run (P steps x L levels) of the real controller_nonMPI over the configuration space of the property '
    '(see C03 rule), optionally with soft faults in iterates (transient state) at scripted hook events. Refinement oracle: for every step, '
    'a sequential single-level dense solver (A probed from a shadow problem, Q from qmat) solves the fine collocation problem started from '
    'the actual end value of the previous step; |uend - uend_ref| must not exceed kappa_end * (actual defect) + 256*eps*kappa*|U|. '
    'Non-trivial = multi-step or multi-level or a fault fired; distinct = distinct digest.'
)
COMPONENTS_REAL = ['controller_nonMPI, Step, Level', 'generic_implicit, explicit, imex_1st_order, multi_implicit sweepers', 'BaseTransfer, mesh_to_mesh, mesh_to_mesh_fft, TransferMesh_NoCoarse', 'CheckConvergence', 'testequation0d, test_equation_IMEX, heatNd_unforced/forced, advectionNd']
COMPONENTS_STUB = ['none of pySDC; reference model = dense collocation solve in the harness', 'sim/massproblem.TwoPartDahlquist: harness-owned problem class for the multi_implicit sweeper']
ASSUMPTIONS = ['linear (affine) problems only: A and b(t) are probed from a shadow instance', 'the bound uses the actual defect recomputed by the harness at post_step, so it holds for converged and budget-limited steps alike',
               'multi_implicit is driven on a harness-owned linear problem with two implicit parts (sim/massproblem.TwoPartDahlquist)', 'controller_MPI flavour: C08']
PROBES = ['step_converged_to_tolerance', 'step_not_converged_budget', 'soft_add', 'soft_garbage', 'fixed_point_probe']


def plan(tier):
    if tier == 'thorough':
        return {'n': 150000, 'chunk': 200, 'timeout': 300, 'selftest': 40, 'budget_s': 3000, 'minimize_s': 300}
    return {'n': 2500, 'chunk': 50, 'timeout': 300, 'selftest': 10, 'budget_s': 900, 'minimize_s': 120}


def generate(seed, tier, index):
    r = rng_for(seed, PROP, index)
    sc = physics.gen_config(r)
    if r.random() < 0.35:
        # fixed-point probe (a soft "fault" that puts the first step of a block onto its fine collocation solution before an iteration)
        cfg = sc['config']
        nb = max(1, int(round((cfg['run']['Tend'] - cfg['run']['t0']) / (cfg['P'] * cfg['level']['dt']))))
        sc['faults']['soft'].append({'block': r.randrange(nb), 'slot': 0, 'level': 0, 'iter': r.randint(1, min(cfg['step']['maxiter'], 3)), 'event': 'pre_iteration',
                                     'node': 1, 'kind': 'exact', 'rel': 0.0, 'seed': 0})
    return sc


def execute(sc):
    res, log = Result(), EventLog()
    tr = blocksim.run(sc, res, log)
    oracles.oracle_c01(tr, sc)
    for k in ('soft_add', 'soft_garbage', 'soft_exact'):
        if res['faults'].get(k):
            res.probe(k)
    cfg = sc['config']
    res['nontrivial'] = cfg['P'] > 1 or isinstance(cfg['sweeper']['params'].get('num_nodes'), list) or bool(res['faults'])
    return res.finish(log)


def shrink(sc):
    return workloads.shrink_history(sc)
