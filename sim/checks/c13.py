"""C13 -- runs never corrupt caller or logged data (engine: blocksim); value semantics of the data types over aliasing histories (engine: dtypesim)."""
from sim.core.base import rng_for, Result, EventLog
from sim import blocksim, workloads, physics, oracles, dtypesim

PROP = 'C13'
LEVEL = 'exploration'
RULE = (
    'Run-level clause (60 % of the runs): "a run never modifies the initial value object passed by the caller, and every solution it returns or logs '
    'remains unchanged by later steps of the same run". A run is a history of one or more run() legs on one real controller_nonMPI '
    '(stub-physics restart/step-size histories of C06, real multi-level physics of C01 with soft faults, real adaptive SDC/RK runs of C09-B) '
    'with LogSolution / LogSolutionAfterIteration enabled; a spy on Hooks.add_to_stats keeps every logged array with its digest at logging '
    'time; digests of the caller value, of every returned value and of the end value object of every finished step are compared again after '
    'the last leg. Data-type clause (40 %): a history of 8-19 operations (new, copy-construct, alias, binary / reflected operation, augmented '
    'assignment, whole-buffer write, slice view, component view, write through a component view, abs) on a pool of five names over mesh, imex_mesh, '
    'comp2_mesh, MeshDAE, particles.position, acceleration; after every operation type and bytes of every name are compared with a reference model '
    'of plain numpy arrays carrying the stated semantics (fresh results, aliases identical, views share one buffer, copies independent, abs = max modulus); '
    'no fault is injected in this part. Non-trivial = at least two blocks or two legs (runs) / more than two operations after the definitions (histories); distinct = distinct digest.'
)
COMPONENTS_REAL = ['mesh, MultiComponentMesh (imex_mesh, comp2_mesh, MeshDAE), particles.position, acceleration, particles and fields containers', 'controller_nonMPI.run/restart_block', 'Step.init_step', 'sweepers generic_implicit/imex_1st_order/explicit/Runge-Kutta (compute_end_point)', 'LogSolution, LogSolutionAfterIteration', 'BaseTransfer']
COMPONENTS_STUB = ['none']
ASSUMPTIONS = ['data-type clause: fault-free operation histories against a reference model (the weakest form of the technique); cupy/petsc/fenics/firedrake types are not driven; charge and mass of particles are compared but never written',
               'aliasing alone is not reported, only observable change of bytes', 'MPI buffer clause: C08']
PROBES = ['augmented_assignment_on_aliased_name', 'augmented_assignment_on_object_with_base', 'write_through_component_view', 'copy_construct', 'logged_arrays_checked', 'continuation_leg_on_same_controller', 'restart_at_later_slot', 'inplace_fault_on_initial_value', 'dae_inplace_sweeper']
HOOKS = ['LogSolution', 'LogSolutionAfterIteration']


def plan(tier):
    if tier == 'thorough':
        return {'n': 200000, 'chunk': 200, 'timeout': 300, 'selftest': 40, 'budget_s': 3000, 'minimize_s': 300}
    return {'n': 4200, 'chunk': 60, 'timeout': 300, 'selftest': 10, 'budget_s': 900, 'minimize_s': 120}


def generate(seed, tier, index):
    r = rng_for(seed, PROP, index)
    if r.random() < 0.4:
        return dtypesim.generate(r)
    c = r.random()
    if c < 0.4:
        sc = workloads.history_config(r, hooks=HOOKS)
    elif c < 0.8:
        sc = physics.gen_config(r)
        sc['config']['hooks'] = list(HOOKS)
        if r.random() < 0.5:
            run = sc['config']['run']
            run['legs'] = [run['t0'] + r.random() * (run['Tend'] - run['t0'])]
    elif c < 0.93:
        sc = workloads.c09_real(r)
        sc['config']['hooks'] = ['LogSolution']
    else:
        sc = workloads.dae_config(r, hooks=HOOKS)
    if sc.get('axis_kind') != 'dae' and r.random() < 0.35:
        # in-place corruption of an iterate by a hook (as Resilience.FaultInjector does), any node incl. the initial value
        cfg = sc['config']
        nlev = len(cfg['sweeper']['params']['num_nodes']) if isinstance(cfg['sweeper']['params'].get('num_nodes'), list) else 1
        sc['faults'].setdefault('soft', [])
        for _ in range(r.randint(1, 3)):
            sc['faults']['soft'].append({'block': r.randrange(4), 'slot': r.randrange(cfg['P']), 'level': r.randrange(nlev), 'iter': r.randint(0, min(cfg['step']['maxiter'], 3)),
                                         'event': r.choice(['pre_iteration', 'pre_sweep', 'post_sweep', 'post_predict', 'pre_step']), 'node': r.choice([0, 0, 1, 2, 3]), 'kind': 'inplace', 'rel': 10 ** r.uniform(-6, -1), 'seed': 0})
    sc['spy_stats'] = True
    return sc


def execute(sc):
    if sc.get('engine') == 'dtypesim':
        return dtypesim.execute(sc)
    res, log = Result(), EventLog()
    tr = blocksim.run(sc, res, log)
    oracles.oracle_c13(tr, sc)
    for leg in tr.legs:
        oracles.probes_c06(leg, sc)
    if len(tr.legs) > 1:
        res.probe('continuation_leg_on_same_controller')
    if res['faults'].get('soft_inplace'):
        res.probe('inplace_fault_on_initial_value')
    if sc.get('axis_kind') == 'dae':
        res.probe('dae_inplace_sweeper')
    res['nontrivial'] = len(tr.legs) > 1 or sum(len(l.ctx.blocks) for l in tr.legs) >= 3
    return res.finish(log)


def shrink(sc):
    if sc.get('engine') == 'dtypesim':
        return dtypesim.shrink(sc)
    return workloads.shrink_history(sc)
