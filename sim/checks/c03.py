"""C03 -- reported residual is the true collocation defect; stopping is sound (engine: blocksim, real physics)."""
from sim.core.base import rng_for, Result, EventLog
from sim import blocksim, physics, oracles, workloads

PROP = 'C03'
LEVEL = 'exploration'
RULE = (
    'A run is one real SDC/MLSDC/PFASST run of controller_nonMPI (Dahlquist scalar/vector, IMEX Dahlquist, FD heat forced/unforced, '
    'FD advection; node family x quadrature type x M; implicit/explicit/IMEX preconditioners; 1-3 levels with node and space coarsening; '
    'P 1..8; every predictor; both couplings; 1-3 sweeps; all four residual types; spread/copy/zero/random guesses; (restol, maxiter) such '
    'that the tolerance is reached at iteration 0, 1, ... or never), optionally with soft faults in iterates at scripted hook events and '
    'with injected convergence verdict/force patterns. At every post_iteration and post_step a shadow problem instance re-evaluates F on the '
    'node values held and forms the defect with Q from qmat; stopping soundness and logged values are judged. Non-trivial = multi-step or '
    'multi-level or a fault fired; distinct = distinct digest.'
)
COMPONENTS_REAL = ['Sweeper.compute_residual, generic_implicit/explicit/imex_1st_order', 'imex_1st_order_mass.compute_residual/update_nodes', 'base_transfer_mass (two-level mass runs)', 'CheckConvergence incl. the increment tolerance e_tol (EstimateEmbeddedError)', 'controller_nonMPI.it_check', 'DefaultHooks', 'BaseTransfer + mesh_to_mesh/mesh_to_mesh_fft/TransferMesh_NoCoarse', 'testequation0d, test_equation_IMEX, heatNd_unforced/forced, advectionNd']
COMPONENTS_STUB = ['none of pySDC; the shadow problem instance and qmat collocation matrices belong to the harness', 'sim/massproblem.MassDahlquist: a harness-owned linear problem with a mass matrix, used to drive the real imex_1st_order_mass sweeper', 'sim/massproblem.IdentityTransferWithProject: identity space transfer offering project() for base_transfer_mass']
ASSUMPTIONS = ['rounding allowance 64*eps*S, S = sum of absolute values of the terms of the worst row (not a tuned tolerance)', 'verdicts within the rounding margin of restol are not judged', 'imex_1st_order_mass is driven on a harness-owned mass-matrix problem (single level); base_transfer_mass is not driven']
PROBES = ['mass_matrix_sweeper', 'residual_checked', 'stopped_by_residual', 'stopped_by_increment', 'stopped_by_maxiter', 'soft_fault_made_residual_grow']


def plan(tier):
    if tier == 'thorough':
        return {'n': 150000, 'chunk': 200, 'timeout': 300, 'selftest': 40, 'budget_s': 3000, 'minimize_s': 300}
    return {'n': 3000, 'chunk': 60, 'timeout': 300, 'selftest': 10, 'budget_s': 900, 'minimize_s': 120}


def generate(seed, tier, index):
    r = rng_for(seed, PROP, index)
    if r.random() < 0.2:
        # injected verdict / force patterns on stub physics: every (restol reached at k) history incl. non-monotone ones
        sc = workloads.c07_random(r, tier)
        sc['shadow'] = True
        return sc
    sc = physics.gen_config(r, allow_mass='multilevel')
    if r.random() < 0.06:
        sc['config']['level']['restol'] = 10 ** r.uniform(1, 3)  # tolerance already met by the initial guess
    cfg = sc['config']
    c = r.random()
    if c < 0.1 and sc.get('problem_kind') != 'mass':
        # a second, increment-based stopping criterion (CheckConvergence loads EstimateEmbeddedError for it)
        cfg['level']['e_tol'] = 10 ** r.uniform(-9, -3)
    elif c < 0.18:
        # a node value turns into NaN: the residual is not a number from then on, which is not "at most the tolerance"
        nlev = len(cfg['sweeper']['params']['num_nodes']) if isinstance(cfg['sweeper']['params'].get('num_nodes'), list) else 1
        sc['faults']['soft'].append({'block': 0, 'slot': r.randrange(cfg['P']), 'level': r.randrange(nlev), 'iter': r.randint(1, min(cfg['step']['maxiter'], 3)),
                                     'event': r.choice(['pre_sweep', 'post_sweep', 'pre_iteration']), 'node': r.randrange(8), 'kind': 'nan', 'rel': 0.0, 'seed': 0})
    return sc


def execute(sc):
    res, log = Result(), EventLog()
    tr = blocksim.run(sc, res, log)
    if sc['faults'].get('verdicts'):
        oracles.oracle_c03_injected(tr, sc)
    else:
        oracles.oracle_c03(tr, sc)
    rs = [r['reported'] for r in tr.ctx.shadow_recs if r['at'] == 'post_iteration']
    if any(b > a for a, b in zip(rs, rs[1:])) and res['faults']:
        res.probe('soft_fault_made_residual_grow')
    cfg = sc['config']
    if cfg['sweeper']['class'] == 'imex_1st_order_mass':
        res.probe('mass_matrix_sweeper')
    res['nontrivial'] = cfg['P'] > 1 or isinstance(cfg['sweeper']['params'].get('num_nodes'), list) or bool(res['faults'])
    return res.finish(log)


def shrink(sc):
    return workloads.shrink_history(sc)
