"""C06 -- accepted steps tile [t0,Tend] contiguously and chain their values exactly (engine: blocksim)."""
import copy

from sim.core.base import rng_for, Result, EventLog
from sim import blocksim, workloads, oracles

PROP = 'C06'
LEVEL = 'exploration'
RULE = (
    'A run is one history of the real controller_nonMPI on a 1-dof test equation over a drawn time axis (binary/decimal '
    'steps, Tend-t0 not a multiple of dt, up to 2000 steps, |t0| up to 1e9, Tend-t0<dt), P in 1..8, 1-3 levels, with restart '
    'requests and step-size proposals injected at scripted (block, slot) positions (control order 89, before BasicRestarting '
    'and the limiters). Accepted steps are reconstructed from pre_step/post_step observations and checked for tiling, chaining, '
    'end time, returned value and step count. Non-trivial = at least 2 blocks or an injected fault fired; distinct = distinct digest.'
)
COMPONENTS_REAL = [
    'controller_nonMPI.run/restart_block/pfasst', 'Step.init_step', 'BasicRestartingNonMPI', 'SpreadStepSizesBlockwiseNonMPI',
    'StepSizeLimiter/StepSizeSlopeLimiter', 'generic_implicit + testequation0d (1 dof), BaseTransfer + TransferMesh_NoCoarse',
]
COMPONENTS_STUB = ['restart requests and step-size proposals come from the script instead of an error estimator']
ASSUMPTIONS = [
    'contiguity is judged up to 4*eps*max(|t|,1)*(P+1): the first block computes t0+sum(dt), later blocks t+dt',
    'step count compared with the smallest N with t0+N*dt >= Tend-2*eps*max(|t0|,|Tend|,1)*N',
    'controller_MPI flavour of this property is exercised by C08',
    'controller_ParaDiag_nonMPI (fixed step, no restarts): inside a block the start value equals the predecessor\'s end value up to 1e3*restol only (all-at-once solve), exactly across blocks',
]
PROBES = ['restart_at_later_slot', 'restart_near_Tend', 'same_step_restarted_twice', 'partial_last_block', 'step_size_changed',
          'two_steps_same_end_time', 'run_aborted_ConvergenceError', 'fixed_step_run', 'continuation_leg_on_same_controller', 'forced_stop_on_later_step', 'paradiag_run', 'steps_finish_in_different_iterations']


def plan(tier):
    if tier == 'thorough':
        return {'n': 400000, 'chunk': 400, 'timeout': 300, 'selftest': 60, 'budget_s': 3000, 'minimize_s': 300}
    return {'n': 6000, 'chunk': 100, 'timeout': 300, 'selftest': 12, 'budget_s': 900, 'minimize_s': 120}


def generate(seed, tier, index):
    r = rng_for(seed, PROP, index)
    if r.random() < 0.06:
        return workloads.paradiag_config(r)
    return workloads.history_config(r, big=(tier == 'thorough'))


def execute(sc):
    res, log = Result(), EventLog()
    tr = blocksim.run(sc, res, log)
    for leg in tr.legs:
        oracles.oracle_c06(leg, sc)
        oracles.probes_c06(leg, sc)
    if len(tr.legs) > 1:
        res.probe('continuation_leg_on_same_controller')
    if sc['config'].get('controller_class') == 'ParaDiag':
        res.probe('paradiag_run')
    for leg in tr.legs:
        byb = {}
        for a in leg.ctx.attempts:
            if a.get('post'):
                byb.setdefault(a['block'], set()).add(a['iter'])
        if any(len(v) > 1 for v in byb.values()):
            res.probe('steps_finish_in_different_iterations')
            break
    res['nontrivial'] = len(tr.ctx.blocks) >= 3 or any(k in res['faults'] for k in ('restart_request', 'dt_proposal'))
    return res.finish(log)


def shrink(sc):
    return workloads.shrink_history(sc)
