"""C06 -- accepted steps tile [t0,Tend] contiguously and chain their values exactly (engines: blocksim, simmpi)."""
import copy

from sim import simmpi

simmpi.install_fake_mpi()  # before any pySDC module that imports mpi4py is loaded in this process

from sim.core.base import rng_for, Result, EventLog  # noqa: E402
from sim import blocksim, workloads, oracles  # noqa: E402

PROP = 'C06'
LEVEL = 'exploration'
RULE = (
    'A run is one history of the real controller_nonMPI on a 1-dof test equation over a drawn time axis (binary/decimal '
    'steps, Tend-t0 not a multiple of dt, up to 2000 steps, |t0| up to 1e9, Tend-t0<dt), P in 1..8, 1-3 levels, with restart '
    'requests and step-size proposals injected at scripted (block, slot) positions (control order 89, before BasicRestarting '
    'and the limiters). Accepted steps are reconstructed from pre_step/post_step observations and checked for tiling, chaining, '
    'end time, returned value and step count. 8 % of the runs drive the real controller_MPI instead (1-5 time ranks on the simulated MPI of C08, seeded schedule, the same scripts '
    'without forced stops): the observations of all ranks are merged and judged by the same oracle. 6 % drive controller_ParaDiag_nonMPI. Non-trivial = at least 2 blocks or an injected fault fired; distinct = distinct digest.'
)
COMPONENTS_REAL = [
    'controller_nonMPI.run/restart_block/pfasst', 'Step.init_step', 'BasicRestartingNonMPI', 'SpreadStepSizesBlockwiseNonMPI',
    'StepSizeLimiter/StepSizeSlopeLimiter', 'controller_MPI.run/restart_block + BasicRestartingMPI + SpreadStepSizesBlockwiseMPI (8 % of the runs)', 'controller_ParaDiag_nonMPI (6 %)', 'generic_implicit + testequation0d (1 dof), BaseTransfer + TransferMesh_NoCoarse',
]
COMPONENTS_STUB = ['restart requests and step-size proposals come from the script instead of an error estimator', 'mpi4py: /verif/sim/fake_mpi4py (simulated MPI, see C08)']
ASSUMPTIONS = [
    'contiguity is judged up to 4*eps*max(|t|,1)*(P+1): the first block computes t0+sum(dt), later blocks t+dt',
    'step count compared with the smallest N with t0+N*dt >= Tend-2*eps*max(|t0|,|Tend|,1)*N',
    'controller_MPI runs that deadlock, abort or break the message protocol are not judged here (C08 reports them)',
    'controller_ParaDiag_nonMPI (fixed step, no restarts): inside a block the start value equals the predecessor\'s end value up to 1e3*restol only (all-at-once solve), exactly across blocks',
]
PROBES = ['restart_at_later_slot', 'restart_near_Tend', 'same_step_restarted_twice', 'partial_last_block', 'step_size_changed',
          'two_steps_same_end_time', 'run_aborted_ConvergenceError', 'fixed_step_run', 'continuation_leg_on_same_controller', 'forced_stop_on_later_step', 'paradiag_run', 'steps_finish_in_different_iterations', 'controller_MPI_run']


def plan(tier):
    if tier == 'thorough':
        return {'n': 400000, 'chunk': 400, 'timeout': 300, 'selftest': 60, 'budget_s': 3000, 'minimize_s': 300}
    return {'n': 6000, 'chunk': 100, 'timeout': 300, 'selftest': 12, 'budget_s': 900, 'minimize_s': 120}


def generate(seed, tier, index):
    r = rng_for(seed, PROP, index)
    c = r.random()
    if c < 0.06:
        return workloads.paradiag_config(r)
    if c < 0.14:
        return mpi_history(r)
    return workloads.history_config(r, big=(tier == 'thorough'))


def mpi_history(r):
    """The same kind of history for controller_MPI on the simulated MPI (1..5 time ranks, seeded schedule): fixed iteration counts,
    restart requests and step-size proposals from the script; forced stops and convergence patterns are left to C08 (F14, F19)."""
    from sim.checks import c08

    sc = workloads.history_config(r)
    cfg = sc['config']
    cfg['P'] = r.randint(1, 5)
    cfg['run'].pop('legs', None)
    sc['faults'].pop('verdicts', None)
    sc['faults']['force'] = []
    span = cfg['run']['Tend'] - cfg['run']['t0']
    cfg['run']['Tend'] = cfg['run']['t0'] + min(span, 30 * cfg['level']['dt'])
    if cfg['P'] > 1 and not isinstance(cfg['sweeper']['params'].get('num_nodes'), list) and not cfg['controller'].get('mssdc_jac', True):
        cfg['level']['nsweeps'] = 1  # controller_MPI refuses more than one sweep in single-level Gauss-Seidel multi-step mode
    sc['engine'] = 'simmpi'
    sc['S'] = 1
    sc['max_events'] = 40000
    sc['max_blocks'] = 120
    sc['sched'] = c08._sched(r)
    sc.pop('spy_stats', None)
    return sc


def execute_mpi(sc):
    res, log = Result(), EventLog()
    outcome, world, recs = simmpi.run_mpi(sc, res, log)
    log.add('outcome', outcome)
    res.probe('controller_MPI_run')
    errors = [r_['error'] for r_ in recs if r_['error'] and r_['error'][0] != 'SimAbort']
    if outcome != 'finished' or errors or world.violations:
        # deadlocks, protocol errors and aborted runs of the MPI flavour are C08's subject (incl. its known findings); not judged here
        res.probe('mpi_run_not_judged')
        res['nontrivial'] = False
        return res.finish(log)
    tr = oracles.c06_view_of_mpi_run(recs, sc, res)
    oracles.oracle_c06(tr, sc)
    oracles.probes_c06(tr, sc)
    V = lambda clause, site, detail, **ident: res.violate('C06', clause, site, detail, ident=ident)  # noqa: E731
    acc = [a for a in tr.ctx.attempts if a.get('post') and a.get('accepted')]
    if acc:
        last_block = acc[-1]['block']
        last = acc[-1]
        for t, rec in sorted(tr.per_rank.items()):
            if rec['nblocks'] - 1 >= last_block and t in tr.ctx.blocks[last_block]['active_slots'] and tr.ctx.blocks[last_block]['restart_at'] > 0:
                if not oracles.same_bytes(rec.get('ret_arr'), last['uend']):
                    V('returned_value', 'run', f'time rank {t}: returned value is not the end value of the last accepted step', rank=t)
                    break
    res['info']['ranks'] = sc['config']['P']
    res['nontrivial'] = len(tr.ctx.blocks) >= 2 or any(k in res['faults'] for k in ('restart_request', 'dt_proposal'))
    return res.finish(log)


def execute(sc):
    if sc.get('engine') == 'simmpi':
        return execute_mpi(sc)
    res, log = Result(), EventLog()
    tr = blocksim.run(sc, res, log)
    for leg in tr.legs:
        oracles.oracle_c06(leg, sc)
        oracles.probes_c06(leg, sc)
    if len(tr.legs) > 1:
        res.probe('continuation_leg_on_same_controller')
    if sc['config'].get('controller_class') == 'ParaDiag':
        res.probe('paradiag_run')
    for leg in tr.legs:
        byb = {}
        for a in leg.ctx.attempts:
            if a.get('post'):
                byb.setdefault(a['block'], set()).add(a['iter'])
        if any(len(v) > 1 for v in byb.values()):
            res.probe('steps_finish_in_different_iterations')
            break
    res['nontrivial'] = len(tr.ctx.blocks) >= 3 or any(k in res['faults'] for k in ('restart_request', 'dt_proposal'))
    return res.finish(log)


def shrink(sc):
    return workloads.shrink_history(sc)
