"""C16 -- field files round-trip bit-exactly and survive interrupted appends (engine: simfs)."""
import copy
import os
import struct

import numpy as np

from sim.core.base import rng_for, Result, EventLog
from sim import simfs

PROP = 'C16'
LEVEL = 'fault_enumeration'
RULE = (
    'A run is one history of FieldsIO operations (create / append / re-open / read-everything / create-again with and '
    'without ALLOW_OVERWRITE / append or header creation in a process that dies at a chosen file offset / read in a new '
    'interpreter) or one LogToFile run killed at a hook event or inside an append and resumed in a fresh process; after '
    'every operation everything readable is compared bit for bit with a list-of-records model. Indices [0,E) enumerate '
    'EVERY byte offset of an append and of header creation for all dtypes x 5 small layouts (records <= 256 B); the rest '
    'are seeded random histories. Non-trivial = at least one append or crash executed; distinct = distinct event-log digest.'
)
COMPONENTS_REAL = [
    'pySDC.helpers.fieldsIO (FieldsIO, Scalar, Rectilinear serial paths)',
    'pySDC.helpers.blocks.BlockDecomposition',
    'pySDC.implementations.hooks.log_solution.LogToFile driven by a real controller_nonMPI + generic_implicit + testequation0d',
    'the OS file system (tmpfs) incl. RLIMIT_FSIZE short writes in a forked child that dies',
]
COMPONENTS_STUB = ['MPI-IO paths of Rectilinear (setupMPI stores per-rank state at class level; not simulated)']
ASSUMPTIONS = [
    'crash model = process crash: completed writes survive, the in-flight write is cut at any byte (no fsync/power-loss reordering)',
    'a crash is produced by the kernel (RLIMIT_FSIZE) in a forked child, so it is exact for any write pattern that moves forward in the file',
    'block-decomposition clause is a pure function of (nProcs, grid, algo): enumerated without scheduler involvement',
]
PROBES = [
    'torn_time_field',
    'torn_payload',
    'torn_header',
    'append_after_torn_tail',
    'crash_of_second_writer_handles_survive',
    'negative_index',
    'crash_before_first_byte',
    'crash_after_complete_record',
    'create_on_existing_refused',
    'overwrite_allowed',
    'reopen',
    'append_through_second_handle',
    'logtofile_killed_in_append',
    'logtofile_killed_at_event',
    'logtofile_resumed',
]

ITEM = {0: 8, 1: 16, 2: 16, 3: 32, 4: 4, 5: 8}
LAYOUTS = [
    ('Scalar', 1, []),
    ('Scalar', 3, []),
    ('Rectilinear', 2, [3]),
    ('Rectilinear', 1, [2, 2]),
    ('Rectilinear', 1, [1, 2, 1]),
]


def _coords(grid, rnd=None):
    out = []
    for n in grid:
        if rnd is None:
            vals = [float(i) / max(n, 1) for i in range(n)]
            out.append(np.array(vals, dtype=np.float64).tobytes().hex())
        else:
            out.append(rnd.randbytes(8 * n).hex())  # arbitrary coordinates: non-monotone, NaN, repeated
    return out


def _header(kind, dtype, nVar, grid, rnd=None):
    hd = {'kind': kind, 'dtype': dtype, 'nVar': nVar, 'grid': list(grid)}
    if kind != 'Scalar':
        hd['coords'] = _coords(grid, rnd)
    return hd


def _reclen(hd):
    n = hd['nVar'] * (int(np.prod(hd['grid'])) if hd['kind'] != 'Scalar' else 1)
    return 8 + n * ITEM[hd['dtype']]


def _hlen(hd):
    if hd['kind'] == 'Scalar':
        return 2 + 8
    return 2 + 4 * (2 + len(hd['grid'])) + 8 * sum(hd['grid'])


def _enumeration():
    """The completely enumerated sub-space: every crash offset of an append / of header creation."""
    items = []
    for dtype in range(6):
        for kind, nVar, grid in LAYOUTS:
            hd = _header(kind, dtype, nVar, grid)
            for k in range(_reclen(hd) + 1):
                items.append(('append', hd, k))
            for k in range(_hlen(hd) + 1):
                items.append(('create', hd, k))
    return items


ENUM = _enumeration()
E = len(ENUM)

T1, T2, T3, T4 = ['hex', (0.0).hex()], ['hex', (0.25).hex()], ['hex', (0.5).hex()], ['hex', (0.75).hex()]


def plan(tier):
    if tier == 'thorough':
        return {'n': E + 400000, 'chunk': 400, 'timeout': 120, 'selftest': 60, 'minimize_s': 300, 'budget_s': 3000}
    return {'n': E + 14000, 'chunk': 250, 'timeout': 120, 'selftest': 14, 'minimize_s': 90, 'budget_s': 600}


def _rand_time(r):
    c = r.random()
    if c < 0.5:
        return ['hex', float(r.randrange(0, 1 << 20) / 1024.0).hex()]
    if c < 0.8:
        return ['hex', float(r.uniform(-1e3, 1e3)).hex()]
    if c < 0.9:
        return ['hex', r.choice([0.0, -0.0, 5e-324, 1e308, float('inf')]).hex()]
    return ['bits', r.randbytes(8).hex()]  # anything, NaN payloads included


def generate(seed, tier, index):
    if index < E:
        what, hd, k = ENUM[index]
        if what == 'append':
            ops = [
                ['create'],
                ['append', T1, 1],
                ['append', T2, 2],
                ['crash_append', T3, 3, k, 'size'],
                ['read', 'fresh'],
                ['reopen', 'generic'],
                ['append', T3, 4],
                ['read', 'live'],
                ['read', 'fresh'],
                ['crash_append', T4, 5, max(1, _reclen(hd) - 1 - k % 3), 'size'],
                ['reopen', 'special'],
                ['append', T4, 6],
                ['read', 'fresh'],
            ]
        else:
            ops = [['crash_create', k]]
        return {'engine': 'simfs', 'kind': 'ops', 'header': hd, 'ops': ops, 'enumerated': True}
    r = rng_for(seed, PROP, index)
    if r.random() < (0.04 if tier == 'quick' else 0.03):
        return _gen_logtofile(r)
    # ---- random history (swarm: each run draws its own sizes, mix and fault rates)
    dtype = r.choice([0, 0, 1, 1, 2, 3, 4, 5])
    if r.random() < 0.45:
        hd = _header('Scalar', dtype, r.randint(1, 6), [])
    else:
        dim = r.randint(1, 3)
        grid = [r.randint(1, 5) for _ in range(dim)]
        hd = _header('Rectilinear', dtype, r.randint(1, 3), grid, rnd=r if r.random() < 0.5 else None)
    hd0 = hd
    p_crash = r.choice([0.0, 0.1, 0.25, 0.4])
    p_reopen = r.choice([0.05, 0.2, 0.4])
    ops = []
    if r.random() < 0.08:
        ops.append(['crash_create', r.random() if r.random() < 0.5 else r.randint(0, _hlen(hd))])
        ops.append(['create', None, True])  # the user starts over, allowing the overwrite
    else:
        ops.append(['create'])
    nops = r.randint(2, 12)
    live = True
    seedc = 0
    multi = r.random() < 0.3  # several handles open on the one file, used in an interleaved fashion
    handles = [0]
    for _ in range(nops):
        c = r.random()
        seedc += 1
        if not live:
            ops.append(['reopen', r.choice(['generic', 'special'])])
            live = True
            handles = [0]
            continue
        if multi and r.random() < 0.45:
            hid = r.randint(0, 2)
            if hid not in handles:
                ops.append(['reopen', r.choice(['generic', 'special']), hid])
                handles.append(hid)
            else:
                ops.append(['append', _rand_time(r), seedc + index * 100, hid])
                if r.random() < 0.5:
                    ops.append(['read', 'live', r.choice(handles)])
            continue
        if c < p_crash:
            rl = _reclen(hd)
            k = r.choice([r.randint(0, rl), r.randint(0, min(rl, 9)), rl - r.randint(0, min(rl, 3)), r.random()])
            base = r.choice(['size', 'size', 'boundary'])
            if r.random() < 0.35:
                # the write is cut in a second writer process; the handlers of this process stay alive and go on appending
                ops.append(['crash_append', _rand_time(r), seedc + index * 100, k, base, r.choice(handles), 'other'])
            else:
                ops.append(['crash_append', _rand_time(r), seedc + index * 100, k, base])
                live = False
            if r.random() < 0.5:
                ops.append(['read', 'fresh'])
        elif c < p_crash + p_reopen:
            ops.append(['reopen', r.choice(['generic', 'special'])])
        elif c < p_crash + p_reopen + 0.08:
            hd2 = hd if r.random() < 0.5 else _header('Scalar', r.choice([0, 1, 4]), r.randint(1, 3), [])
            allow = r.random() < 0.4
            ops.append(['create', hd2, allow])
            if allow:
                hd = hd2
                handles = [0]
        elif c < p_crash + p_reopen + 0.3:
            ops.append(['read', r.choice(['live', 'fresh'])])
        else:
            ops.append(['append', _rand_time(r), seedc + index * 100])
    if not live:
        ops.append(['reopen', 'generic'])
    ops.append(['read', 'fresh'])
    if r.random() < (0.01 if tier == 'quick' else 0.02):
        ops.append(['fresh_read'])
    return {'engine': 'simfs', 'kind': 'ops', 'header': hd0, 'ops': ops}


def _gen_logtofile(r):
    nl = r.randint(1, 3)
    lambdas = [[-r.uniform(0.1, 5.0), r.uniform(-3, 3)] for _ in range(nl)]
    nsteps = r.randint(2, 6)
    cfg = {
        'lambdas': lambdas,
        'dt': r.choice([0.125, 0.25, 0.0625]),
        'nsteps': nsteps,
        'num_nodes': r.randint(1, 3),
        'maxiter': r.randint(1, 4),
        'QI': r.choice(['IE', 'LU', 'MIN-SR-S']),
        't0': r.choice([0.0, 0.0, 1.0, 0.5]),
    }
    reclen = 8 + 16 * nl
    if r.random() < 0.55:
        kill = {'mode': 'append', 'record': r.randint(0, nsteps), 'k': r.randint(0, reclen - 1)}
    else:
        kill = {'mode': 'event', 'event': r.randint(1, 14 * nsteps + 6), 'hook_first': r.random() < 0.5}
    return {'engine': 'simfs', 'kind': 'logtofile', 'config': cfg, 'kill': kill}


# -----------------------------------------------------------------------------------------------------------------
def execute(sc):
    if sc['kind'] == 'ops':
        return simfs.execute_ops(sc)
    if sc['kind'] == 'logtofile':
        return _exec_logtofile(sc)
    if sc['kind'] == 'decomp':
        return _exec_decomp(sc)
    raise ValueError(sc['kind'])


def _exec_decomp(sc):
    from pySDC.helpers.blocks import BlockDecomposition

    res, log = Result(), EventLog()
    cover = np.zeros(sc['grid'], dtype=np.int32)
    for rank in range(sc['nProcs']):
        iLoc, nLoc = BlockDecomposition(sc['nProcs'], sc['grid'], sc['algo'], rank).localBounds
        cover[tuple(slice(i, i + n) for i, n in zip(iLoc, nLoc))] += 1
        log.add('decomp', rank, iLoc, nLoc)
    if not (cover == 1).all():
        res.violate('C16', 'decomposition_cover', 'BlockDecomposition.localBounds', f'coverage min={cover.min()} max={cover.max()}', ident={'algo': sc['algo']})
    res['nontrivial'] = True
    return res.finish(log)


def _ltf_run(path, cfg, u0, t0, Tend, kill=None):
    """Runs in a forked child. Builds a real controller with LogToFile and runs it; may die on purpose."""
    import logging
    from pySDC.core.hooks import Hooks
    from pySDC.implementations.controller_classes.controller_nonMPI import controller_nonMPI
    from pySDC.implementations.hooks.log_solution import LogToFile
    from pySDC.implementations.problem_classes.TestEquation_0D import testequation0d
    from pySDC.implementations.sweeper_classes.generic_implicit import generic_implicit

    class LTF(LogToFile):
        filename = path

    class Killer(Hooks):
        count = 0
        at = kill['event'] if kill and kill['mode'] == 'event' else -1

        def _tick(self):
            type(self).count += 1
            if type(self).count == self.at:
                os._exit(9)

        def pre_run(self, step, level_number):
            self._tick()

        def pre_step(self, step, level_number):
            self._tick()

        def pre_iteration(self, step, level_number):
            self._tick()

        def pre_sweep(self, step, level_number):
            self._tick()

        def post_sweep(self, step, level_number):
            self._tick()

        def post_iteration(self, step, level_number):
            self._tick()

        def post_step(self, step, level_number):
            self._tick()

        def post_run(self, step, level_number):
            self._tick()

    lam = np.array([complex(a, b) for a, b in cfg['lambdas']])
    hooks = [Killer, LTF] if (kill and kill.get('hook_first')) else [LTF, Killer]
    desc = {
        'problem_class': testequation0d,
        'problem_params': {'lambdas': lam, 'u0': 1.0},
        'sweeper_class': generic_implicit,
        'sweeper_params': {'num_nodes': cfg['num_nodes'], 'quad_type': 'RADAU-RIGHT', 'QI': cfg['QI']},
        'level_params': {'dt': cfg['dt'], 'restol': -1.0},
        'step_params': {'maxiter': cfg['maxiter']},
    }
    ctrl = controller_nonMPI(1, {'logger_level': 50, 'hook_class': hooks, 'dump_setup': False}, desc)
    logging.disable(logging.CRITICAL)
    P = ctrl.MS[0].levels[0].prob
    if u0 is None:
        uinit = P.u_exact(t0) if t0 == 0 else P.dtype_u(P.init, val=1.0)
    else:
        uinit = P.dtype_u(P.init)
        uinit[:] = u0
    ctrl.run(uinit, t0, Tend)


def _fork_run(fn, limit=None):
    import resource

    pid = os.fork()
    if pid == 0:
        code = 17
        try:
            resource.setrlimit(resource.RLIMIT_CORE, (0, 0))
            if limit is not None:
                import signal

                signal.signal(signal.SIGXFSZ, signal.SIG_DFL)  # CPython ignores it; a real crash must kill
                resource.setrlimit(resource.RLIMIT_FSIZE, (limit, resource.RLIM_INFINITY))
            fn()
            code = 0
        except BaseException:  # noqa: BLE001
            import traceback

            if os.environ.get('VERIF_DEBUG'):
                traceback.print_exc()
            code = 17
        finally:
            os._exit(code)
    _, status = os.waitpid(pid, 0)
    if os.WIFEXITED(status):
        return os.WEXITSTATUS(status)
    return -os.WTERMSIG(status)


def _records(path, nl):
    """Raw parse (independent of FieldsIO): header 10 bytes for Scalar, then (8 + 16*nl)-byte records."""
    data = open(path, 'rb').read()
    hlen, rl = 10, 8 + 16 * nl
    body = data[hlen:]
    n = len(body) // rl
    return [(body[i * rl : i * rl + 8], body[i * rl + 8 : (i + 1) * rl]) for i in range(n)], len(body) - n * rl


def _exec_logtofile(sc):
    import shutil

    res, log = Result(), EventLog()
    cfg, kill = sc['config'], sc['kill']
    d = simfs.scratch_dir()
    nl = len(cfg['lambdas'])
    rl = 8 + 16 * nl
    t0, Tend = cfg['t0'], cfg['t0'] + cfg['nsteps'] * cfg['dt']
    try:
        ref = os.path.join(d, 'ref.pysdc')
        rc = _fork_run(lambda: _ltf_run(ref, cfg, None, t0, Tend))
        if rc != 0:
            raise RuntimeError(f'reference LogToFile run failed rc={rc}')
        ref_recs, ref_tail = _records(ref, nl)
        log.add('ltf', 'ref', len(ref_recs), ref_tail)
        # --- the run that dies
        path = os.path.join(d, 'run.pysdc')
        if kill['mode'] == 'append':
            limit = 10 + kill['record'] * rl + kill['k']
            rc = _fork_run(lambda: _ltf_run(path, cfg, None, t0, Tend), limit=limit)
            res.fault('kill_in_append')
            res.probe('logtofile_killed_in_append')
        else:
            rc = _fork_run(lambda: _ltf_run(path, cfg, None, t0, Tend, kill=kill))
            res.fault('kill_at_event')
            if rc == 9:
                res.probe('logtofile_killed_at_event')
        log.add('ltf', 'killed', rc, os.path.getsize(path) if os.path.exists(path) else -1)
        # --- resume in a fresh process from the last complete record
        attempts = 0
        while rc != 0 and attempts < 2:
            attempts += 1
            recs, tail = _records(path, nl) if os.path.exists(path) and os.path.getsize(path) >= 10 else ([], 0)
            if tail:
                res.probe('resume_with_torn_tail')
            usable = [(tb, fb) for tb, fb in recs if struct.unpack('<d', tb)[0] > 0]
            if recs != ref_recs[: len(recs)]:
                res.violate('C16', 'completed_record_lost', 'LogToFile', 'records completed before the kill differ from the uninterrupted run')
            if usable:
                tb, fb = recs[-1]
                tl = struct.unpack('<d', tb)[0]
                ul = np.frombuffer(fb, dtype=np.complex128)
                if tl >= Tend:
                    rc = 0
                    break
                rc = _fork_run(lambda: _ltf_run(path, cfg, ul, tl, Tend))
            else:
                # nothing to resume from (LogToFile only resumes for t > 0): the user deletes the file and starts over
                if os.path.exists(path):
                    os.remove(path)
                rc = _fork_run(lambda: _ltf_run(path, cfg, None, t0, Tend))
            res.probe('logtofile_resumed')
            log.add('ltf', 'resumed', rc, os.path.getsize(path))
        if rc != 0:
            res.violate('C16', 'logtofile_resume', 'LogToFile.pre_run', f'resumed run failed (exit {rc})', ident={'mode': kill['mode']})
        else:
            # read back through the real reader and compare with the uninterrupted run bit for bit
            from pySDC.helpers.fieldsIO import FieldsIO

            h = FieldsIO.fromFile(path)
            got = []
            for i in range(h.nFields):
                t, f = h.readField(i)
                got.append((struct.pack('<d', t), np.ascontiguousarray(f).tobytes()))
            if got != ref_recs:
                first = next((i for i, (a, b) in enumerate(zip(got, ref_recs)) if a != b), min(len(got), len(ref_recs)))
                res.violate(
                    'C16',
                    'logtofile_resume',
                    'LogToFile',
                    f'file after kill+resume has {len(got)} records, uninterrupted run {len(ref_recs)}; first difference at index {first}',
                    ident={'mode': kill['mode'], 'torn': bool(kill['mode'] == 'append' and kill['k'] > 0)},
                )
            log.add('ltf', 'final', len(got), [a.hex() for a, _ in got])
        res['ticks'] = cfg['nsteps']
        res['model_time'] = cfg['nsteps'] * cfg['dt']
        res['nontrivial'] = True
    finally:
        shutil.rmtree(d, ignore_errors=True)
    return res.finish(log)


# -----------------------------------------------------------------------------------------------------------------
def shrink(sc):
    if sc['kind'] == 'decomp':
        return
    if sc['kind'] == 'logtofile':
        c = sc['config']
        for key, lo in (('nsteps', 2), ('num_nodes', 1), ('maxiter', 1)):
            if c[key] > lo:
                s2 = copy.deepcopy(sc)
                s2['config'][key] = lo
                yield s2
                s2 = copy.deepcopy(sc)
                s2['config'][key] = c[key] - 1
                yield s2
        if len(c['lambdas']) > 1:
            s2 = copy.deepcopy(sc)
            s2['config']['lambdas'] = c['lambdas'][:1]
            if s2['kill']['mode'] == 'append':
                s2['kill']['k'] = min(s2['kill']['k'], 8 + 16 - 1)
            yield s2
        if c['t0'] != 0.0:
            s2 = copy.deepcopy(sc)
            s2['config']['t0'] = 0.0
            yield s2
        return
    ops = sc['ops']
    # drop one operation (never the first create)
    for i in range(len(ops) - 1, 0, -1):
        s2 = copy.deepcopy(sc)
        del s2['ops'][i]
        yield s2
    hd = sc['header']
    if hd['dtype'] != 0:
        s2 = copy.deepcopy(sc)
        s2['header']['dtype'] = 0
        yield s2
    if hd['kind'] != 'Scalar':
        s2 = copy.deepcopy(sc)
        s2['header'] = _header('Scalar', hd['dtype'], 1, [])
        yield s2
    elif hd['nVar'] > 1:
        s2 = copy.deepcopy(sc)
        s2['header']['nVar'] = 1
        yield s2
    for i, op in enumerate(ops):
        if op[0] in ('append', 'crash_append') and op[1] != T2:
            s2 = copy.deepcopy(sc)
            s2['ops'][i][1] = T2
            yield s2


# -----------------------------------------------------------------------------------------------------------------
def extra(tier, seed, workers):
    """Clause 6: block decomposition covers every grid point exactly once -- a pure function, enumerated."""
    from pySDC.helpers.blocks import BlockDecomposition

    grids = [[n] for n in (1, 2, 3, 5, 8, 16, 17, 64, 100)]
    grids += [[a, b] for a in (1, 2, 4, 7, 16, 33) for b in (1, 3, 8, 16, 31)]
    grids += [[a, b, c] for a in (1, 2, 5, 8) for b in (1, 3, 8) for c in (2, 4, 9)]
    if tier == 'thorough':
        grids += [[a, b] for a in range(1, 20) for b in range(1, 20)]
        grids += [[a, b, c] for a in range(1, 9) for b in range(1, 9) for c in range(1, 9)]
    viol = []
    evals = 0
    cases = 0
    for grid in grids:
        for algo in ('Hybrid', 'ChatGPT'):
            for nProcs in range(1, 65):
                cases += 1
                try:
                    nB = BlockDecomposition(nProcs, grid, algo, 0).nBlocks
                except Exception:  # noqa: BLE001 - construction may refuse a combination
                    continue
                cover = np.zeros(grid, dtype=np.int32)
                ok = True
                for rank in range(nProcs):
                    iLoc, nLoc = BlockDecomposition(nProcs, grid, algo, rank).localBounds
                    sl = tuple(slice(i, i + n) for i, n in zip(iLoc, nLoc))
                    cover[sl] += 1
                evals += 1
                if not (cover == 1).all():
                    ok = False
                if not ok:
                    scn = {'engine': 'simfs', 'kind': 'decomp', 'nProcs': nProcs, 'grid': grid, 'algo': algo}
                    viol.append(
                        {
                            'scenario': scn,
                            'violation': dict(
                                prop='C16',
                                clause='decomposition_cover',
                                site='BlockDecomposition.localBounds',
                                detail=f'nProcs={nProcs} grid={grid} algo={algo}: coverage min={cover.min()} max={cover.max()}',
                                ident={'algo': algo},
                            ),
                        }
                    )
    return {
        'violations': viol[:3],
        'decomposition_cases_enumerated': cases,
        'decomposition_cases_checked': evals,
        'enumerated_crash_points': E,
        'exhaustive': True,
        'exhaustive_scope': f'every byte offset of an append and of header creation for 6 dtypes x {len(LAYOUTS)} layouts (first {E} runs); '
        f'block decomposition for nProcs 1..64 x {len(grids)} grids x 2 algorithms',
    }
