"""C07 -- block protocol safe for every convergence pattern (engine: blocksim, real controller_nonMPI)."""
import copy
import itertools

from sim.core.base import rng_for, Result, EventLog
from sim import blocksim, workloads, oracles

PROP = 'C07'
LEVEL = 'fault_enumeration'
RULE = (
    'A run is one block history of the real controller_nonMPI on a 1-dof test equation: an injector convergence controller '
    '(order 190, just before CheckConvergence) overwrites the residual verdict of every (step, iteration) pair from a bit '
    'pattern and sets force_done/force_continue at scripted positions. Indices [0,E) ENUMERATE all 2^(P*K) patterns for every '
    'P<=Pmax, K<=Kmax and all 56 configurations (levels 1-3 x predictor x coupling x all_to_done x nsweeps); the remaining '
    'runs are seeded samples with P<=8, K<=8, 1-3 blocks and force flags. Non-trivial = at least 2 parallel steps or a force '
    'flag fired; distinct = distinct event-log digest.'
)
COMPONENTS_REAL = [
    'controller_nonMPI (run, pfasst, all stage functions, send_full/recv_full, restart_block)',
    'CheckConvergence, BasicRestartingNonMPI, SpreadStepSizesBlockwiseNonMPI (defaults)',
    'Step/Level/Hooks, generic_implicit sweeper, BaseTransfer + TransferMesh_NoCoarse, testequation0d (1 dof)',
]
COMPONENTS_STUB = ['the residual value seen by CheckConvergence is overwritten by the injected verdict (that is the fault space)']
ASSUMPTIONS = [
    'the convergence verdict is injected at control order 190; every other code path is the shipped one',
    'lock-step is judged at every entry of controller.pfasst() (the granularity at which the controller itself speaks of stages)',
]
PROBES = [
    'steps_finish_in_different_iterations',
    'converged_at_iter0',
    'later_step_converged_first',
    'exceeded_maxiter_by_force_continue',
    'recv_skipped_prev_done',
]

_SPACE = {}


def _space(tier):
    if tier not in _SPACE:
        cells = workloads.c07_space(tier)
        cum = [0]
        for c in cells:
            cum.append(cum[-1] + c[3])
        _SPACE[tier] = (cells, cum)
    return _SPACE[tier]


def plan(tier):
    cells, cum = _space(tier)
    E = cum[-1]
    if tier == 'thorough':
        return {'n': E + 600000, 'chunk': 2000, 'timeout': 60, 'selftest': 60, 'budget_s': 3000, 'minimize_s': 300}
    return {'n': E + 12000, 'chunk': 500, 'timeout': 60, 'selftest': 16, 'budget_s': 900, 'minimize_s': 90}


def generate(seed, tier, index):
    cells, cum = _space(tier)
    if index < cum[-1]:
        sc = workloads.c07_enumerated(cells, cum, index)
        sc['enumerated'] = True
        return sc
    return workloads.c07_random(rng_for(seed, PROP, index), tier)


def execute(sc):
    res, log = Result(), EventLog()
    tr = blocksim.run(sc, res, log)
    oracles.oracle_c07(tr, sc)
    oracles.probes_c07(tr, sc)
    res['nontrivial'] = sc['config']['P'] >= 2 or bool(res['faults'].get('force_done') or res['faults'].get('force_continue'))
    return res.finish(log)


def extra(tier, seed, workers):
    cells, cum = _space(tier)
    return {
        'enumerated_patterns': cum[-1],
        'exhaustive': True,
        'exhaustive_scope': f'all 2^(P*K) verdict patterns for P<={max(c[0] for c in cells)}, K<={max(c[1] for c in cells)} x {len(workloads.C07_CONFIGS)} configurations, single block '
        '(complete only if skipped_for_wall_budget == 0); sampled beyond',
    }


def shrink(sc):
    cfg = sc['config']
    f = sc['faults']
    # drop force flags
    for i in range(len(f.get('force', []))):
        s2 = copy.deepcopy(sc)
        del s2['faults']['force'][i]
        yield s2
    # fewer blocks
    P, dt = cfg['P'], cfg['level']['dt']
    nb = round((cfg['run']['Tend'] - cfg['run']['t0']) / (P * dt))
    if nb > 1:
        s2 = copy.deepcopy(sc)
        s2['config']['run']['Tend'] = cfg['run']['t0'] + (nb - 1) * P * dt
        yield s2
    # fewer steps (drop the last slot)
    if P > 1:
        s2 = copy.deepcopy(sc)
        s2['config']['P'] = P - 1
        s2['config']['run']['Tend'] = cfg['run']['t0'] + nb * (P - 1) * dt
        s2['faults']['verdicts']['table'] = [e for e in f['verdicts']['table'] if e[0][1] < P - 1]
        s2['faults']['force'] = [e for e in f.get('force', []) if e[1] < P - 1]
        yield s2
    # fewer levels
    nl = len(cfg['sweeper']['params']['num_nodes']) if isinstance(cfg['sweeper']['params']['num_nodes'], list) else 1
    if nl > 1:
        s2 = copy.deepcopy(sc)
        c = s2['config']
        if nl == 2:
            c['sweeper']['params']['num_nodes'] = cfg['sweeper']['params']['num_nodes'][0]
            c['level']['nsweeps'] = cfg['level']['nsweeps'][0]
            c['transfer'] = None
            c['controller']['predict_type'] = None
        else:
            c['sweeper']['params']['num_nodes'] = cfg['sweeper']['params']['num_nodes'][:2]
            c['level']['nsweeps'] = cfg['level']['nsweeps'][:1] + [1]
        yield s2
    # simpler options
    for key, val in (('predict_type', None), ('all_to_done', False), ('mssdc_jac', True)):
        if cfg['controller'].get(key) != val:
            s2 = copy.deepcopy(sc)
            s2['config']['controller'][key] = val
            yield s2
    # smaller maxiter
    K = cfg['step']['maxiter']
    if K > 1:
        s2 = copy.deepcopy(sc)
        s2['config']['step']['maxiter'] = K - 1
        yield s2
    # verdict bits towards "not converged"
    tab = f['verdicts']['table']
    ones = [i for i, e in enumerate(tab) if e[1]]
    for i in ones:
        s2 = copy.deepcopy(sc)
        s2['faults']['verdicts']['table'][i][1] = 0
        yield s2
