"""Oracles over a blocksim Trace.  Each function appends violations of ONE property to tr.res."""
import re
import struct

import numpy as np

from sim.core.base import bdigest

EPS = np.finfo(float).eps
ABORTS = ('ControllerError', 'CommunicationError', 'UnlockError')


def fbits(x):
    return struct.pack('<d', float(x))


def same_bytes(a, b):
    if a is None or b is None:
        return a is None and b is None
    a, b = np.asarray(a), np.asarray(b)
    return a.shape == b.shape and a.dtype == b.dtype and a.tobytes() == b.tobytes()


# =========================================================================================================== C07
TOK = {
    'pre_step': 'S',
    'post_step': 'E',
    'pre_predict': 'P',
    'post_predict': 'p',
    'pre_iteration': 'I',
    'post_iteration': 'i',
    'pre_sweep': 'W',
    'post_sweep': 'w',
}
GRAMMAR = re.compile(r'^S(Pp)?(I(Ww)+i)*E$')


def oracle_c07(tr, sc):
    ctx, res = tr.ctx, tr.res
    cfg = sc['config']
    K = cfg['step']['maxiter']
    forced_continue = {(b, s, k) for b, s, k, what in sc['faults'].get('force', []) if what == 'continue'}
    forced_done = {(b, s, k) for b, s, k, what in sc['faults'].get('force', []) if what == 'done'}
    V = lambda clause, site, detail, **ident: res.violate('C07', clause, site, detail, ident=ident)  # noqa: E731

    # 1. no protocol error / 6. termination
    if tr.exc is not None:
        if tr.exc[0] == 'StepCapExceeded':
            V('termination', 'controller_nonMPI.run', f'block did not terminate: {tr.exc[1]}')
        elif tr.exc[0] in ABORTS:
            V('protocol_error', tr.exc[0], tr.exc[1])
        else:
            V('unexpected_exception', tr.exc[0], tr.exc[1])
        return
    # 2. lock-step at every entry of pfasst()
    if ctx.lockstep_bad is not None:
        V('lockstep', 'controller_nonMPI.pfasst', f'running steps in different stages at entry of pfasst(): {ctx.lockstep_bad}')
    for p in ctx.problems:
        V('callback_pairing', p[0], f'slot {p[1]}')

    by_block = {}
    for a in ctx.attempts:
        by_block.setdefault(a['block'], []).append(a)
    for b, atts in by_block.items():
        atts.sort(key=lambda a: a['slot'])
        blk = ctx.blocks[b]
        # 3. finish order
        for a0, a1 in zip(atts, atts[1:]):
            if not (a0.get('post') and a1.get('post')):
                continue
            if a1['seq_post'] < a0['seq_post']:
                V('finish_order', 'it_check', f'block {b}: slot {a1["slot"]} finished before slot {a0["slot"]}')
            if a1['iter'] < a0['iter']:
                V('finish_order', 'it_check', f'block {b}: slot {a1["slot"]} finished in iteration {a1["iter"]} < {a0["iter"]} of its predecessor')
        # every started step finishes (7, pairing)
        for a in atts:
            if not a.get('post'):
                V('grammar', 'hooks', f'block {b} slot {a["slot"]}: pre_step without post_step')
        # 4. frozen after finish
        fin = {f['slot']: f for f in blk.get('final', [])}
        for a in atts:
            f = fin.get(a['slot'])
            if f is None or not a.get('post'):
                continue
            if f['digest'] != a['digest_post'] or f['iter'] != a['iter']:
                V('frozen_after_finish', 'Step', f'block {b} slot {a["slot"]}: state at end of block differs from state at post_step')
        # 8. all_to_done: same number of iterations
        if cfg['controller'].get('all_to_done') and len({a['iter'] for a in atts if a.get('post')}) > 1:
            has_force = any((bb in (b, -1)) for bb, _, _, _ in sc['faults'].get('force', []))
            if not has_force:
                V('all_to_done', 'it_check', f'block {b}: iteration counts {[a.get("iter") for a in atts]} differ with all_to_done')
        # 9. iteration budget
        for a in atts:
            if not a.get('post'):
                continue
            over = a['iter'] - K
            if over > 0:
                # a step cannot finish before its predecessor (with all_to_done: before anybody), so a continuation
                # forced on an earlier step legitimately carries its successors beyond maxiter as well
                a2d = cfg['controller'].get('all_to_done')
                allowed = sum(1 for (bb, s, k) in forced_continue if bb in (b, -1) and (a2d or s <= a['slot']) and k >= K)
                if over > allowed:
                    V('iteration_budget', 'CheckConvergence', f'block {b} slot {a["slot"]}: iter {a["iter"]} > maxiter {K} with {allowed} forced continuation(s)')

    # 7. grammar per (block, slot)
    seqs = {}
    for ev in ctx.events:
        _, name, b, s, lvl, t, it, sw, stage, dt = ev
        if name in TOK:
            seqs.setdefault((b, s), []).append((TOK[name], it, lvl))
    for (b, s), toks in seqs.items():
        word = ''.join(t for t, _, _ in toks)
        if not GRAMMAR.match(word):
            V('grammar', 'hooks', f'block {b} slot {s}: callback word {word!r} does not match S(Pp)?(I(Ww)+i)*E')
            continue
        its = [it for t, it, _ in toks if t == 'I']
        if its != list(range(1, len(its) + 1)):
            V('grammar', 'hooks', f'block {b} slot {s}: pre_iteration numbers {its}')
        its2 = [it for t, it, _ in toks if t == 'i']
        if its2 != its:
            V('grammar', 'hooks', f'block {b} slot {s}: post_iteration numbers {its2} vs pre_iteration {its}')
    for a in ctx.attempts:
        if a.get('post') and a['niter_cb'] != a['iter']:
            V('grammar', 'hooks', f'block {a["block"]} slot {a["slot"]}: status.iter {a["iter"]} != number of pre_iteration callbacks {a["niter_cb"]}')

    # 5. transfer matching: independent mailbox model replayed over the recorded sends/receives; every forward transfer is
    #    consumed exactly once, by the successor, on the level and in the iteration it was sent for
    mailbox = {}
    flagged = set()

    def unconsumed(key, ent):
        if ('unc', key[2]) not in flagged:
            flagged.add(('unc', key[2]))
            V('transfer_not_consumed', 'send_full', f'block {key[0]}: the forward transfer of slot {key[1]} on level {key[2]} in iteration {ent[0]} was never consumed', level_kind='fine' if key[2] == 0 else 'coarser')

    for rec in ctx.comm:
        if rec[0] == 'send':
            _, b, s, lvl, it, acted, dig, seq = rec
            if acted:
                old_ent = mailbox.get((b, s, lvl))
                if old_ent is not None and not old_ent[2]:
                    unconsumed((b, s, lvl), old_ent)
                mailbox[(b, s, lvl)] = [it, dig, False]
        else:
            _, b, s, lvl, it, acted, dig, seq, src_slot, src_dig, src_tag, fresh = rec
            if not acted:
                continue
            got = mailbox.get((b, src_slot, lvl))
            if src_slot != s - 1:
                V('transfer_matching', 'recv_full', f'block {b}: slot {s} received from slot {src_slot}')
            elif got is None:
                V('transfer_matching', 'recv_full', f'block {b}: slot {s} level {lvl} iter {it} received although slot {src_slot} never sent on that level')
            elif got[0] != it:
                V('transfer_matching', 'recv_full', f'block {b}: slot {s} level {lvl} consumed the send of iteration {got[0]} in iteration {it}')
            elif fresh is False:
                V('transfer_matching', 'recv_full', f'block {b}: slot {s} level {lvl} iter {it} received a stale end value (sender swept after its last send)')
            elif dig != src_dig:
                V('transfer_matching', 'recv_full', f'block {b}: slot {s} level {lvl} iter {it}: u[0] after the receive is not the sender\'s end value')
            elif got[2] and ('twice', lvl) not in flagged:
                flagged.add(('twice', lvl))
                V('transfer_consumed_twice', 'recv_full', f'block {b}: slot {s} level {lvl} iter {it} consumed the transfer of slot {src_slot} a second time')
            if got is not None:
                got[2] = True
    if tr.exc is None:
        for key, ent in sorted(mailbox.items()):
            if not ent[2]:
                unconsumed(key, ent)
    return


def probes_c07(tr, sc):
    ctx, res = tr.ctx, tr.res
    by_block = {}
    for a in ctx.attempts:
        by_block.setdefault(a['block'], []).append(a)
    for b, atts in by_block.items():
        its = [a.get('iter') for a in sorted(atts, key=lambda a: a['slot']) if a.get('post')]
        if len(set(its)) > 1:
            res.probe('steps_finish_in_different_iterations')
        if its and its[0] == 0:
            res.probe('converged_at_iter0')
        for a in atts:
            chk = a.get('checks', [])
            # a later step that had a converged verdict while its predecessor was still running
            if a['slot'] > 0 and any(r == 0.0 for _, r, _, _ in chk[:-1]):
                res.probe('later_step_converged_first')
            if a.get('iter', 0) > sc['config']['step']['maxiter']:
                res.probe('exceeded_maxiter_by_force_continue')
    if any(r[0] == 'recv' and not r[5] and r[2] > 0 for r in ctx.comm):
        res.probe('recv_skipped_prev_done')


# =========================================================================================================== C06
def oracle_c06(tr, sc):
    ctx, res = tr.ctx, tr.res
    cfg = sc['config']
    t0, Tend, P = getattr(tr, 't0', cfg['run']['t0']), getattr(tr, 'Tend', cfg['run']['Tend']), cfg['P']
    V = lambda clause, site, detail, **ident: res.violate('C06', clause, site, detail, ident=ident)  # noqa: E731
    aborted = tr.exc is not None
    if aborted and tr.exc[0] == 'StepCapExceeded':
        res.probe('skipped_step_cap')
        return False
    if aborted and tr.exc[0] not in ('ConvergenceError',):
        V('unexpected_exception', tr.exc[0], tr.exc[1])
        return True
    acc = [a for a in ctx.attempts if a.get('post') and a.get('accepted')]
    acc.sort(key=lambda a: (a['block'], a['slot']))
    if not acc and not aborted:
        V('no_step', 'controller_nonMPI.run', 'run returned without any accepted step')
        return True
    tolt = lambda x, y: 4 * EPS * max(abs(x), abs(y), 1.0) * (P + 1)  # noqa: E731
    if acc:
        s1 = acc[0]
        # 1. first step starts at t0, from a copy of the caller's value
        if fbits(s1['t']) != fbits(t0):
            V('first_step_time', 'run', f'first accepted step starts at {s1["t"]!r}, t0={t0!r}')
        if not same_bytes(s1['u0_post'], tr.u0_before):
            V('first_step_value', 'restart_block', 'first accepted step does not start from the caller\'s initial value')
    for a in ctx.attempts:
        if a.get('u0_aliases_caller'):
            V('first_step_value', 'init_step', f'block {a["block"]} slot {a["slot"]} starts from the caller\'s initial value object itself, not from a copy')
            break
    # 2. contiguity, 3. chaining
    for a, b in zip(acc, acc[1:]):
        want = a['t'] + a['dt']
        if abs(b['t'] - want) > tolt(b['t'], want):
            kind = 'gap' if b['t'] > want else 'overlap'
            V('contiguity', 'run', f'accepted step at {b["t"]!r} follows step [{a["t"]!r}, +{a["dt"]!r}]: {kind} of {b["t"] - want:.3e}', kind=kind)
        if cfg.get('controller_class') == 'ParaDiag' and b['block'] == a['block']:
            # ParaDiag solves the steps of a block all at once: inside a block the start value equals the predecessor's end
            # value only up to the residual tolerance (by construction of the method); across blocks it is handed over exactly
            d = float(np.max(np.abs(np.asarray(b['u0_post']) - np.asarray(a['uend']))))
            if d > 1e3 * abs(cfg['level']['restol']) * (1.0 + float(np.max(np.abs(np.asarray(a['uend']))))):
                V('chaining', 'ParaDiag', f'step at t={b["t"]!r} (block {b["block"]} slot {b["slot"]}) starts {d:.3e} away from the end value of its predecessor (restol {cfg["level"]["restol"]:.1e})', kind='paradiag_block')
            continue
        if not same_bytes(b['u0_post'], a['uend']):
            sp = cfg['sweeper']['params']
            lagged = P > 1 and not isinstance(sp.get('num_nodes'), list) and (sp.get('do_coll_update') or sp.get('quad_type') in ('GAUSS', 'RADAU-LEFT')) and (b['block'] == a['block'] or a['slot'] < len(ctx.blocks[a['block']]['active_slots']) - 1)
            V('chaining', 'run', f'step at t={b["t"]!r} (block {b["block"]} slot {b["slot"]}) does not start from the end value of the previous accepted step', kind='coll_update_multistep_lag' if lagged else 'other')
    starts = [a['t'] for a in acc]
    if len(set(fbits(t) for t in starts)) != len(starts):
        V('contiguity', 'run', 'two accepted steps share a start time', kind='duplicate')
    # 4. nobody starts at or beyond Tend; the run reaches Tend
    for a in ctx.attempts:
        if not a['t'] < Tend:
            V('start_beyond_Tend', 'run', f'step attempted at t={a["t"]!r} >= Tend={Tend!r}', kind='paradiag_solves_to_end_of_block' if cfg.get('controller_class') == 'ParaDiag' else 'other')
            break
    N = len(acc)
    # accumulated rounding of N additions, plus the controller's own absolute activity threshold of 10*eps
    rho = 2 * EPS * max(abs(t0), abs(Tend), 1.0) * max(N, 1) + 10 * EPS
    if not aborted:
        last = acc[-1]
        if last['t'] + last['dt'] < Tend - rho:
            V('stops_before_Tend', 'run', f'last accepted step ends at {last["t"] + last["dt"]!r} < Tend={Tend!r}')
        # 5. returned value
        if not same_bytes(tr.ret_copy, last['uend']):
            V('returned_value', 'run', 'returned value is not the end value of the last accepted step')
    # 7. pre_step/post_step pairing
    for a in ctx.attempts:
        if not a.get('post') and not aborted:
            V('pairing', 'hooks', f'block {a["block"]} slot {a["slot"]}: pre_step without post_step')
    for p in ctx.problems:
        V('pairing', p[0], f'slot {p[1]}')
    # 6. fixed step size, no restarts: number of steps
    paradiag_past_Tend = cfg.get('controller_class') == 'ParaDiag' and any(not a['t'] < Tend for a in ctx.attempts)
    fixed = not paradiag_past_Tend and not sc['faults'].get('dtnew') and not any(a.get('restart_final') or not a.get('accepted', True) for a in ctx.attempts) and not aborted
    if fixed and acc and all(fbits(a['dt']) == fbits(acc[0]['dt']) for a in acc):
        from fractions import Fraction as Fr

        dt = acc[0]['dt']
        scale = 2 * EPS * max(abs(t0), abs(Tend), 1.0)
        n = max(int((Tend - t0) / dt) - 2, 0)
        while not (t0 + n * dt >= Tend - scale * max(n, 1) - 10 * EPS):
            n += 1
        n_lo = n  # Tend reached up to accumulated rounding
        n_exact = max(n_lo - 2, 0)  # smallest N with t0 + N*dt >= Tend in exact rational arithmetic on the given floats
        while not (Fr(t0) + n_exact * Fr(dt) >= Fr(Tend)):
            n_exact += 1
        if not (n_lo <= N <= max(n_exact, n_lo)):
            last = acc[-1]
            sliver = N == max(n_exact, n_lo) + 1 and last['t'] >= Tend - scale * max(N, 1) - 10 * EPS
            V(
                'step_count',
                'run',
                f't0={t0!r} dt={dt!r} Tend={Tend!r} P={P}: {N} accepted steps; Tend is reached (up to rounding) after {n_lo}, exactly after {n_exact}; last step starts at {last["t"]!r}',
                kind='sliver_step_at_Tend' if sliver else ('extra' if N > n_exact else 'missing'),
            )
        res.probe('fixed_step_run')
    return True


class _MpiCtx:
    pass


class _MpiTrace:
    pass


def c06_view_of_mpi_run(recs, sc, res):
    """The observations of all time ranks of one simulated controller_MPI run, merged into the shape oracle_c06 judges."""
    per_rank = {r['rec']['time_rank']: r['rec'] for r in recs if r['rec'] is not None and r['rec'].get('node_rank', 0) == 0}
    attempts = []
    for t, rec in sorted(per_rank.items()):
        for a in rec['attempts']:
            attempts.append({'block': a['block'], 'slot': a['slot'], 't': a['t'], 'dt': a['dt'], 'post': a['post'], 'iter': a['iter'],
                             'restart_final': bool(a['restart_final']), 'u0_post': a['u0_post_arr'], 'uend': a['uend_arr']})
    attempts.sort(key=lambda a: (a['block'], a['slot']))
    blocks = []
    nb = max([a['block'] for a in attempts], default=-1) + 1
    for b in range(nb):
        mine = [a for a in attempts if a['block'] == b]
        flags = [a['restart_final'] for a in mine]
        ra = flags.index(True) if True in flags else len(flags)
        for i, a in enumerate(mine):
            a['accepted'] = i < ra  # controller_MPI.run: the next block starts at the first step that asks for a restart
        blocks.append({'index': b, 'active_slots': [a['slot'] for a in mine], 'restart_at': ra, 'final': [{'restart': f} for f in flags]})
    ctx = _MpiCtx()
    ctx.attempts, ctx.blocks, ctx.problems = attempts, blocks, []
    tr = _MpiTrace()
    tr.ctx, tr.res, tr.exc = ctx, res, None
    tr.u0_before = per_rank[0]['u0_before']
    tr.ret_copy = per_rank[0].get('ret_arr')
    tr.per_rank = per_rank
    return tr


def probes_c06(tr, sc):
    ctx, res = tr.ctx, tr.res
    cfg = sc['config']
    if tr.exc and tr.exc[0] == 'ConvergenceError':
        res.probe('run_aborted_ConvergenceError')
    nb = len(ctx.blocks)
    for b in ctx.blocks:
        ra = b.get('restart_at')
        if ra is not None and ra < len(b.get('final', [])):
            res.probe('restart_at_first_slot' if ra == 0 else 'restart_at_later_slot')
            if b['index'] >= nb - 3:
                res.probe('restart_near_Tend')
        if len(b['active_slots']) and len(b['active_slots']) < cfg['P']:
            res.probe('partial_last_block')
    seen = {}
    for a in ctx.attempts:
        k = fbits(a['t'])
        seen[k] = seen.get(k, 0) + 1
    if any(v >= 3 for v in seen.values()):
        res.probe('same_step_restarted_twice')
    dts = {fbits(a['dt']) for a in ctx.attempts}
    if len(dts) > 1:
        res.probe('step_size_changed')
    ends = {}
    for a in ctx.attempts:
        if a.get('post'):
            ends.setdefault(fbits(a['t'] + a['dt']), set()).add(fbits(a['t']))
    if any(len(v) > 1 for v in ends.values()):
        res.probe('two_steps_same_end_time')
    if res['faults'].get('force_done'):
        res.probe('forced_stop_on_later_step')


# =========================================================================================================== C14
START_KEYED = ('niter', 'residual_post_step', 'restart', 'dt')
END_KEYED = ('u', 'k', 'error_embedded_estimate', 'e_global_post_step', 'e_local_post_step')


def _valeq(a, b):
    try:
        if isinstance(a, np.ndarray) or isinstance(b, np.ndarray):
            return same_bytes(a, b)
        if isinstance(a, float) and isinstance(b, float):
            return fbits(a) == fbits(b)
        return a == b
    except Exception:  # noqa: BLE001
        return False


def oracle_c14(tr, sc, rng):
    from pySDC.helpers.stats_helper import filter_stats, sort_stats, get_sorted

    ctx, res = tr.ctx, tr.res
    stats = tr.stats
    V = lambda clause, site, detail, **ident: res.violate('C14', clause, site, detail, ident=ident)  # noqa: E731
    if tr.exc is not None and tr.exc[0] not in ('ConvergenceError',):
        if tr.exc[0] == 'StepCapExceeded':
            res.probe('skipped_step_cap')
            return
        V('unexpected_exception', tr.exc[0], tr.exc[1])
        return
    if stats is None:
        return
    if tr.exc is not None:
        # run() raised ConvergenceError: it returned no statistics; the attempts of the last block were never superseded
        res.probe('run_aborted_not_judged')
        return
    acc = [a for a in ctx.attempts if a.get('post') and a.get('accepted')]
    types = {k.type for k in stats}
    nlev = len(cfg_levels(sc))
    # -- 2. collisions: a record written for an accepted step is later overwritten with a different value under the same
    #       full key (markers and timings aside).  Collisions among superseded records only are not the property's business.
    def owner_accepted(proc, seq):
        for a in acc:
            if a['slot'] == proc and a['seq_pre'] <= seq <= a['seq_post']:
                return True
        return False

    seen = {}
    for kind, key, value, hook, seq, _dig in getattr(ctx, 'stat_writes', []):
        if key.type.startswith('timing') or key.type == '_recomputed' or kind == 'inc':
            continue
        if key in seen and not _valeq(seen[key][0], value) and seen[key][2]:
            cause = 'middle_level_swept_twice_per_iteration' if (key.type == 'residual_post_sweep' and key.level not in (0, nlev - 1, None)) else 'other'
            V('key_collision', seen[key][1], f'the record of an accepted step with key {tuple(key)} is overwritten with a different value (hooks {seen[key][1]}, {hook})', type=key.type, cause=cause)
        seen[key] = (value, hook, owner_accepted(key.process, seq))
    # -- diagnosis of one known root cause: filter_stats(recomputed=False) assumes that, at one time key, a higher restart
    #    count means a newer record.  A superseded attempt that starts or ends at the very same time as an accepted step
    #    and carries a restart count >= that of the accepted step defeats it (records and _recomputed markers alike).
    sup = [b for b in ctx.attempts if b.get('post') and not b.get('accepted')]
    sup_times = {}
    for b in sup:
        for tt in (fbits(b['t']), fbits(b['t'] + b['dt'])):
            sup_times[tt] = max(sup_times.get(tt, -1), b['restarts_in_a_row'] or 0)

    def nonmonotone(a):
        for tt in (fbits(a['t']), fbits(a['t'] + a['dt'])):
            if sup_times.get(tt, -1) >= (a['restarts_in_a_row'] or 0):
                return True
        return False

    tainted_times = set()
    for a in acc:
        if nonmonotone(a):
            tainted_times.add(fbits(a['t']))
            tainted_times.add(fbits(a['t'] + a['dt']))
    if tainted_times:
        res.probe('superseded_attempt_with_geq_restart_count_at_same_time')

    def VF(t, clause, site, detail, **ident):
        """Violation at time key t: attributed to the known root cause if t is tainted by it."""
        if t in tainted_times:
            V('recomputed_filter_nonmonotone_restart_count', 'filter_stats', detail, root='restart_count_not_monotone_per_time')
        else:
            V(clause, site, detail, **ident)

    # -- 1./5. per accepted step exactly one record per quantity after filtering out recomputed values
    # quantities that must be present because of the configuration, whether or not a record of that type exists at all
    cfgx = sc['config']
    expected = {'niter', 'residual_post_step'}
    hk = set(cfgx.get('hooks', []))
    ccn = {n for n, _ in cfgx.get('cc', [])}
    if 'LogSolution' in hk:
        expected.add('u')
    if 'LogStepSize' in hk:
        expected.add('dt')
    if any(n.startswith('BasicRestarting') for n in ccn):
        expected.add('restart')
    if 'Adaptivity' in ccn and any(a.get('e_est') for a in acc):
        expected.add('error_embedded_estimate')
    for q in sorted(types | expected):
        if q.startswith('timing') or q.startswith('_'):
            continue
        if q in START_KEYED:
            want = {fbits(a['t']): a for a in acc}
        elif q == 'error_embedded_estimate':
            want = {fbits(a['t'] + a['dt']): a for a in acc if a.get('e_est')}  # the hook records truthy estimates only
        elif q in END_KEYED or q.startswith('work_'):
            want = {fbits(a['t'] + a['dt']): a for a in acc}
        else:
            continue
        got = filter_stats(stats, type=q, recomputed=False)
        lvl0 = {}
        for k, v in got.items():
            if q.startswith('work_') and k.level != 0:
                continue
            lvl0.setdefault(fbits(k.time), []).append((k, v))
        extra = [t for t in lvl0 if t not in want]
        missing = [t for t in want if t not in lvl0]
        dup = [t for t, l in lvl0.items() if len(l) > 1]
        if extra:
            t = struct.unpack('<d', extra[0])[0]
            sup = any(fbits(a['t']) == extra[0] or fbits(a['t'] + a['dt']) == extra[0] for a in ctx.attempts if not a.get('accepted'))
            VF(extra[0], 'recomputed_filter_keeps_superseded', 'filter_stats', f"type {q!r}: record at time {t!r} survives recomputed=False but belongs to no accepted step ({len(extra)} such)", type=q, hook=_hook_of(q), superseded=sup)
        if missing:
            t = struct.unpack('<d', missing[0])[0]
            VF(missing[0], 'recomputed_filter_drops_accepted', 'filter_stats', f"type {q!r}: accepted step keyed {t!r} has no record after recomputed=False ({len(missing)} such)", type=q, hook=_hook_of(q))
        if dup:
            t = struct.unpack('<d', dup[0])[0]
            VF(dup[0], 'duplicate_record', 'filter_stats', f"type {q!r}: {len(lvl0[dup[0]])} records for the accepted step keyed {t!r}", type=q, hook=_hook_of(q))
        # values and key fields
        for t, lst in lvl0.items():
            if t not in want or len(lst) != 1:
                continue
            a, (k, v) = want[t], lst[0]
            if k.process != a['slot']:
                VF(t, 'wrong_key_field', _hook_of(q), f"type {q!r}: process {k.process} != slot {a['slot']}", type=q, field='process')
            if q == 'niter' and not (v == a['iter'] == a['niter_cb']):
                VF(t, 'niter_mismatch', 'DefaultHooks.post_step', f"niter record {v} vs status.iter {a['iter']} vs {a['niter_cb']} pre_iteration callbacks (t={a['t']!r})")
            if q == 'dt' and fbits(v) != fbits(a['dt']):
                VF(t, 'wrong_value', 'LogStepSize', f"dt record {v!r} != {a['dt']!r}", type=q)
            if q == 'u' and not same_bytes(v, a['uend']):
                VF(t, 'wrong_value', 'LogSolution', f"logged u for the step ending at {a['t'] + a['dt']!r} differs from the step's end value", type=q)
            if q == 'restart' and v != 0:
                VF(t, 'wrong_value', 'LogRestarts', f"accepted step at {a['t']!r} recorded restart={v}", type=q)
            if q == 'residual_post_step' and not _valeq(float(v), float(a['residual'])):
                VF(t, 'wrong_value', 'DefaultHooks.post_step', 'residual_post_step differs from the level residual at post_step', type=q)
            if q in ('niter', 'restart', 'dt', 'u', 'k') and k.iter != a['iter']:
                VF(t, 'wrong_key_field', _hook_of(q), f"type {q!r}: iter field {k.iter} != {a['iter']}", type=q, field='iter')
            if k.num_restarts != (a['restarts_in_a_row'] or 0):
                VF(t, 'wrong_key_field', _hook_of(q), f"type {q!r} at {struct.unpack('<d', t)[0]!r}: num_restarts field {k.num_restarts} != restarts in a row {a['restarts_in_a_row']} of that step", type=q, field='num_restarts')
            if q == 'work_rhs' and a.get('work_post'):
                mine = a['work_post'][0].get('eval_f', 0) - a['work_pre'][0].get('eval_f', 0)
                if v != mine:
                    VF(t, 'work_mismatch', 'LogWork', f"work_rhs record {v} != {mine} right-hand-side evaluations counted independently (t={a['t']!r})")
    # -- 1b. per-iteration quantity of the default hooks: one record per performed iteration of every accepted step, keyed with
    #        that step's slot and restart count
    q = 'residual_post_iteration'
    if q in types:
        got = filter_stats(stats, type=q, recomputed=False)
        by_t = {}
        for k, v in got.items():
            by_t.setdefault(fbits(k.time), []).append(k)
        want = {fbits(a['t']): a for a in acc}
        extra = [t for t in by_t if t not in want]
        if extra:
            VF(extra[0], 'recomputed_filter_keeps_superseded', 'filter_stats', f"type {q!r}: records at time {struct.unpack('<d', extra[0])[0]!r} survive recomputed=False but belong to no accepted step", type=q, hook='DefaultHooks')
        for t, a in want.items():
            ks = by_t.get(t, [])
            iters = sorted(k.iter for k in ks)
            if iters and a['iter'] == 0 and (a['restarts_in_a_row'] or 0) > 0 and all(k.num_restarts < (a['restarts_in_a_row'] or 0) for k in ks):
                # the accepted attempt performed no iteration, so no record of this type carries its restart count: the filter, which
                # infers supersession from the counts present at a time key, keeps the records of the superseded attempt (root of F03)
                V('recomputed_filter_nonmonotone_restart_count', 'filter_stats', f"type {q!r}: the accepted step at t={a['t']!r} performed no iteration; the records of its superseded attempt survive recomputed=False", root='restart_count_not_monotone_per_time')
            elif iters != list(range(1, a['iter'] + 1)):
                VF(t, 'per_iteration_records', 'DefaultHooks.post_iteration', f"type {q!r}: accepted step at t={a['t']!r} (slot {a['slot']}, {a['iter']} iterations, {a['restarts_in_a_row']} restarts in a row) has records for iterations {iters} after recomputed=False", type=q)
            elif any(k.num_restarts != (a['restarts_in_a_row'] or 0) or k.process != a['slot'] for k in ks):
                VF(t, 'wrong_key_field', 'DefaultHooks.post_iteration', f"type {q!r}: records of the accepted step at t={a['t']!r} carry num_restarts {sorted({k.num_restarts for k in ks})} / process {sorted({k.process for k in ks})}, the step has {a['restarts_in_a_row']} restarts in a row on slot {a['slot']}", type=q, field='num_restarts')
    # -- 4. filter / sort helpers on the recorded dictionary
    keys = list(stats)
    if keys:
        # recomputed=False without a type must treat every quantity independently: equal to the union of the per-type results
        union = {}
        for q in types:
            if q != '_recomputed' and not q.startswith('timing'):
                union.update(filter_stats(stats, type=q, recomputed=False))
        before = list(stats.keys())
        ret = filter_stats(stats, recomputed=False)
        if list(stats.keys()) != before:
            V('filter_changes_its_input', 'filter_stats', f'filter_stats(stats, recomputed=False) removed entries from the dictionary it was given ({len(before)} entries before, {len(stats)} after)')
            return
        allf = {k: v for k, v in ret.items() if k.type != '_recomputed' and not k.type.startswith('timing')}
        if set(allf) != set(union):
            d = list(set(allf) ^ set(union))[0]
            VF(fbits(d.time) if d.time is not None else b'', 'filter_untyped_differs', 'filter_stats', f'filter_stats(recomputed=False) differs from the union of the per-type results, e.g. at key {tuple(d)}', type=d.type)
        # a key that every record of a quantity carries anyway must not change what recomputed=False leaves of it
        if any(k.type == '_recomputed' for k in keys):
            for q in sorted(types):
                if q.startswith('_') or q.startswith('timing'):
                    continue
                mine = [k for k in keys if k.type == q]
                base = None
                for f in ('level', 'process', 'sweep', 'iter', 'num_restarts'):
                    vals = {getattr(k, f) for k in mine}
                    if len(vals) != 1 or None in vals:
                        continue
                    if base is None:
                        base = set(filter_stats(stats, type=q, recomputed=False))
                    got = set(filter_stats(stats, type=q, recomputed=False, **{f: next(iter(vals))}))
                    if got != base:
                        d = sorted(got ^ base, key=lambda k: (k.time, k.num_restarts))[0]
                        V('filter_extra_key_changes_recomputed', 'filter_stats', f"type {q!r}: adding {f}={next(iter(vals))!r} (carried by every record of that type) to recomputed=False changes the result ({len(got)} vs {len(base)} records), e.g. at time {d.time!r}", type=q, field=f)
                        break
        for _ in range(4):
            k0 = keys[rng.randrange(len(keys))]
            fields = rng.sample(['process', 'time', 'level', 'iter', 'sweep', 'type', 'num_restarts'], rng.randint(1, 3))
            kw = {f: getattr(k0, f) for f in fields if getattr(k0, f) is not None}
            got = filter_stats(stats, **kw)
            ref = {k: v for k, v in stats.items() if all(getattr(k, f) == val for f, val in kw.items())}
            if list(got.keys()) != list(ref.keys()):
                V('filter_wrong', 'filter_stats', f'filter_stats(**{kw}) returns {len(got)} entries, reference {len(ref)}')
            sb = rng.choice(['time', 'iter', 'process'])
            sub = {k: v for k, v in got.items() if getattr(k, sb) is not None}
            srt = sort_stats(sub, sortby=sb)
            ks = [x[0] for x in srt]
            if ks != sorted(ks) or len(srt) != len(sub):
                V('sort_wrong', 'sort_stats', f'sort_stats by {sb} not ascending or not a permutation')
            gs = get_sorted(stats, sortby=sb, **{k: v for k, v in kw.items()}) if all(getattr(k, sb) is not None for k in got) else None
            if gs is not None and [x[0] for x in gs] != [x[0] for x in sort_stats(got, sortby=sb)]:
                V('sort_wrong', 'get_sorted', 'get_sorted is not sort_stats(filter_stats(...))')


def cfg_levels(sc):
    nn = sc['config']['sweeper']['params'].get('num_nodes', 1)
    return nn if isinstance(nn, list) else [nn]


def _hook_of(q):
    return {
        'niter': 'DefaultHooks',
        'residual_post_step': 'DefaultHooks',
        'restart': 'LogRestarts',
        'dt': 'LogStepSize',
        'u': 'LogSolution',
        'k': 'LogSDCIterations',
        'error_embedded_estimate': 'LogEmbeddedErrorEstimate',
    }.get(q, 'LogWork' if q.startswith('work_') else ('LogErrors' if q.startswith('e_') else q))


# =========================================================================================================== C09
def _cc_params(sc, name, default=None):
    for n, p in sc['config'].get('cc', []):
        if n == name or n.startswith(name):
            return p
    return default


def oracle_c09(tr, sc):
    ctx, res = tr.ctx, tr.res
    cfg = sc['config']
    V = lambda clause, site, detail, **ident: res.violate('C09', clause, site, detail, ident=ident)  # noqa: E731
    if tr.exc is not None and tr.exc[0] == 'StepCapExceeded':
        res.probe('skipped_step_cap')
        return
    if tr.exc is not None and tr.exc[0] != 'ConvergenceError':
        V('unexpected_exception', tr.exc[0], tr.exc[1])
        return
    br = {'max_restarts': 10, 'crash_after_max_restarts': True, 'restart_from_first_step': False, **(_cc_params(sc, 'BasicRestarting') or {})}
    ad = None
    for n, p in cfg.get('cc', []):
        if n.startswith('Adaptivity'):
            ad = (n, p)
    M = br['max_restarts']
    K = cfg['step']['maxiter']
    conv_class = ad is not None and ad[0] in ('AdaptivityPolynomialError', 'AdaptivityExtrapolationWithinQ')
    est_key = 'e_extrap' if (ad is not None and ad[0] == 'AdaptivityExtrapolationWithinQ') else 'e_est'
    if est_key != 'e_est':
        for a in ctx.attempts:
            a['e_est'] = a.get('e_extrap')
    by_block = {}
    for a in ctx.attempts:
        by_block.setdefault(a['block'], []).append(a)
    for atts in by_block.values():
        atts.sort(key=lambda a: a['slot'])
    nb = len(ctx.blocks)
    scripted_restarts = {(b, s) for b, s in sc['faults'].get('restarts', [])}
    same_first = 1
    for b in range(nb):
        blk = ctx.blocks[b]
        atts = by_block.get(b, [])
        if not atts:
            continue
        # R2: one step size per block
        if len({fbits(a['dt']) for a in atts}) > 1:
            V('R2_mixed_dt_in_block', 'SpreadStepSizesBlockwiseNonMPI.prepare_next_block', f'block {b} starts with step sizes {[a["dt"] for a in atts]}')
        fin = blk.get('final')
        if fin is None:
            # the run raised in this block: legal only as the documented surrender
            if tr.exc and tr.exc[0] == 'ConvergenceError':
                first = atts[0]
                if not br['crash_after_max_restarts']:
                    V('R3_retry_budget', 'BasicRestartingNonMPI.determine_restart', 'ConvergenceError raised although crash_after_max_restarts is False')
                elif (first['restarts_in_a_row'] or 0) < M:
                    V('R3_retry_budget', 'BasicRestartingNonMPI.determine_restart', f'ConvergenceError raised after {first["restarts_in_a_row"]} restart(s) in a row, budget is {M}')
                res.probe('retry_budget_exhausted_crash')
            continue
        r = blk['restart_at']
        restarted = r < len(fin)
        first = atts[0]
        # R3b: a restart happens only while the first step's counter is below the budget
        if restarted and (first['restarts_in_a_row'] or 0) >= M:
            V('R3_retry_budget', 'BasicRestartingNonMPI.determine_restart', f'block {b} restarted although its first step had already been restarted {first["restarts_in_a_row"]} time(s) in a row (max_restarts={M})')
        if not restarted and (first['restarts_in_a_row'] or 0) >= M and M > 0:
            res.probe('retry_budget_exhausted_moved_on')
        nxt = by_block.get(b + 1)
        if nxt is None:
            continue
        if restarted:
            # R1: the next block begins at the start time and with the start value of the first restarted step
            if fbits(nxt[0]['t']) != fbits(atts[r]['t']):
                V('R1_restart_position', 'controller_nonMPI.run', f'block {b} restarted at slot {r} (t={atts[r]["t"]!r}) but the next block starts at t={nxt[0]["t"]!r}')
            if not same_bytes(nxt[0]['u0_pre'], fin[r]['u0']):
                V('R1_restart_value', 'controller_nonMPI.run', f'block {b} restarted at slot {r}: next block does not start from that step\'s start value')
            for a in atts[:r]:
                if not a.get('accepted'):
                    V('R1_restart_position', 'controller_nonMPI.run', f'block {b}: slot {a["slot"]} before the restarted slot {r} is not kept')
            # R3a: counters are handed over: new slot j <- old slot r+j (+1 if that step was flagged), 0 beyond
            for j, a2 in enumerate(nxt):
                if r + j < len(fin):
                    want = (atts[r + j]['restarts_in_a_row'] or 0) + 1 if fin[r + j]['restart'] else 0
                else:
                    want = 0
                if (a2['restarts_in_a_row'] or 0) != want:
                    V('R3_restart_counter', 'BasicRestartingNonMPI.prepare_next_block', f'block {b + 1} slot {j}: restarts_in_a_row={a2["restarts_in_a_row"]}, handed over from block {b} slot {r + j} should be {want}')
                    break
            same_first = same_first + 1 if r == 0 else 1
            if same_first > M + 1:
                V('R3_retry_budget', 'BasicRestartingNonMPI', f'start time {nxt[0]["t"]!r} is attempted {same_first} times in a row as first step, budget max_restarts+1={M + 1}')
            # R6: the retry of a rejected step uses a smaller step, unless a lower limit binds
            rej = atts[r]
            own = ad is not None and rej.get('e_est') is not None and rej['e_est'] >= ad[1]['e_tol'] and (b, r) not in scripted_restarts
            if own and (rej.get('iter', 0) >= K or conv_class):
                dmin = ad[1].get('dt_min', 0)
                smin = ad[1].get('dt_slope_min', 0)
                new = nxt[0]['dt']
                binds = (dmin and new <= dmin * (1 + 4 * EPS)) or (smin and abs(new - rej['dt'] * smin) <= 4 * EPS * rej['dt'])
                if not (new < rej['dt']) and not binds:
                    V('R6_retry_not_smaller', 'step size control', f'step at t={rej["t"]!r} rejected with dt={rej["dt"]!r} (e_est={rej["e_est"]:.3e} >= e_tol) is retried with dt={new!r}')
        else:
            same_first = 1
            for j, a2 in enumerate(nxt):
                if (a2['restarts_in_a_row'] or 0) != 0:
                    V('R3_restart_counter', 'BasicRestartingNonMPI.prepare_next_block', f'block {b + 1} slot {j}: restarts_in_a_row={a2["restarts_in_a_row"]} after a block without restart')
                    break
        # progress: first start times never go back
        if nxt[0]['t'] < atts[0]['t']:
            V('R3_progress', 'controller_nonMPI.run', f'block {b + 1} starts at {nxt[0]["t"]!r} before block {b} ({atts[0]["t"]!r})')
    # R7: with overwrite_to_reach_Tend (the default) the step-size control is overruled near the final time: the run ends at
    #     Tend, up to the documented slack (the cap is never below dt_initial, so at most num_procs*dt_initial beyond)
    spread = {'overwrite_to_reach_Tend': True, **(_cc_params(sc, 'SpreadStepSizesBlockwise') or {})}
    if ad is not None and spread['overwrite_to_reach_Tend'] and tr.exc is None:
        acc = [a for a in ctx.attempts if a.get('post') and a.get('accepted')]
        if acc:
            last = max(acc, key=lambda a: (a['block'], a['slot']))
            Tend = getattr(tr, 'Tend', cfg['run']['Tend'])
            dt_initial = cfg['level']['dt']
            over = last['t'] + last['dt'] - Tend
            # the last block starts at t_b with n_b steps of size min(proposal, max((Tend - t_b)/size, dt_initial)), n_b <= size:
            # it ends no later than max(Tend, t_b + n_b*dt_initial)
            blk = [a for a in ctx.attempts if a['block'] == last['block']]
            t_b = min(a['t'] for a in blk)
            allowed = max(0.0, t_b + len(blk) * dt_initial - Tend)
            if over > allowed * (1 + 1e-9) + 64 * EPS * max(abs(Tend), 1.0):
                V('R7_reach_Tend', 'SpreadStepSizesBlockwiseNonMPI.prepare_next_block', f'overwrite_to_reach_Tend is on, but the run ends at {last["t"] + last["dt"]!r}, {over:.3e} beyond Tend={Tend!r}; the last block starts at {t_b!r} with {len(blk)} step(s), documented slack max(0, t_b + n*dt_initial - Tend) = {allowed:.3e}')
            res.probe('reach_Tend_checked')
    # R4: accepted steps meet the tolerance unless the budget was exhausted
    if ad is not None:
        e_tol = ad[1]['e_tol']
        for a in ctx.attempts:
            if a.get('accepted') and a.get('e_est') is not None and (a.get('iter', 0) >= K or conv_class):
                first = by_block[a['block']][0]
                if a['e_est'] > e_tol and (first['restarts_in_a_row'] or 0) < M:
                    V('R4_accept_criterion', 'Adaptivity.determine_restart', f'step at t={a["t"]!r} accepted with e_est={a["e_est"]:.6e} > e_tol={e_tol:.6e} after {first["restarts_in_a_row"]} restart(s), budget {M}')
        # R5: proposal formula and limiters
        beta = ad[1].get('beta', 0.9)
        if ad[0] == 'AdaptivityRK':
            from sim.blocksim import resolve

            order = ad[1].get('update_order', resolve(cfg['sweeper']['class']).get_update_order())
        else:
            order = K
        raw = {}
        fac = ad[1].get('factor_if_not_converged', 4.0)
        for c in ctx.cc:
            key = (c['block'], c['slot'], c['iter'])
            if conv_class and c['at'] == 'raw':
                e_now = c['e_extrap'] if ad[0] == 'AdaptivityExtrapolationWithinQ' else c['e_est']
                if c['restart'] and c['force_done'] and c['dt_new'] is not None:
                    # non-convergence path: step size divided by factor_if_not_converged
                    want = c['dt'] / fac
                    if abs(c['dt_new'] - want) > 8 * EPS * abs(want):
                        V('R5_proposal_formula', type_name(ad[0]), f'non-converged collocation problem: dt_new={c["dt_new"]!r}, dt/{fac}={want!r}')
                    res.probe('collocation_problem_not_converged_restart')
                elif c['converged_now'] and e_now is not None and c['dt_new'] is not None and e_now > 0:
                    if ad[0] == 'AdaptivityPolynomialError':
                        order_c = c['order_est']
                    else:
                        order_c = c['num_nodes'] + 1 if ad[1].get('high_Taylor_order') else c['num_nodes']
                    if order_c:
                        want = beta * c['dt'] * (e_tol / e_now) ** (1.0 / order_c)
                        if abs(c['dt_new'] - want) > 8 * EPS * abs(want):
                            V('R5_proposal_formula', type_name(ad[0]), f'proposed dt_new={c["dt_new"]!r}, beta*dt*(tol/err)^(1/{order_c})={want!r} (dt={c["dt"]!r}, err={e_now!r})')
                        raw[key] = c
                        res.probe('converged_collocation_proposal_checked')
                continue
            if c['at'] == 'raw' and c['iter'] == K and c['e_est'] is not None and c['dt_new'] is not None:
                want = beta * c['dt'] * (e_tol / c['e_est']) ** (1.0 / order)
                if abs(c['dt_new'] - want) > 8 * EPS * abs(want):
                    V('R5_proposal_formula', type_name(ad[0]), f'proposed dt_new={c["dt_new"]!r}, beta*dt*(tol/err)^(1/{order})={want!r} (dt={c["dt"]!r}, err={c["e_est"]!r})')
                raw[key] = c
            elif c['at'] == 'limited' and key in raw and (c['block'], c['slot']) not in scripted_restarts:
                r0 = raw[key]
                x = r0['dt_new']
                dt = r0['dt']
                smin, smax, rel = ad[1].get('dt_slope_min', 0), ad[1].get('dt_slope_max', np.inf), ad[1].get('dt_rel_min_slope', 0)
                has_slope = any(k in ad[1] for k in ('dt_slope_min', 'dt_slope_max', 'dt_rel_min_slope'))
                has_abs = has_slope or any(k in ad[1] for k in ('dt_min', 'dt_max'))
                if has_slope:
                    if x / dt < smin:
                        x = dt * smin
                    elif x / dt > smax:
                        x = dt * smax
                    elif abs(x / dt - 1) < rel and not r0['restart']:
                        x = dt
                if has_abs:
                    if x < ad[1].get('dt_min', 0):
                        x = ad[1].get('dt_min', 0)
                    elif x > ad[1].get('dt_max', np.inf):
                        x = ad[1].get('dt_max', np.inf)
                if c['dt_new'] is None or abs(c['dt_new'] - x) > 8 * EPS * abs(x):
                    V('R5_limiter', 'StepSizeLimiter', f'after the limiters dt_new={c["dt_new"]!r}, reference clip_abs(clip_slope({r0["dt_new"]!r})) = {x!r} (dt={dt!r}, limits { {k: v for k, v in ad[1].items() if k.startswith("dt_")} })')


def type_name(n):
    return n


def probes_c09(tr, sc):
    ctx, res = tr.ctx, tr.res
    for c in ctx.cc:
        if c['at'] == 'raw' and c.get('e_est') is not None:
            res.probe('estimate_seen')
            break
    if res['faults'].get('estimate_tie'):
        res.probe('exact_tie_e_est_equals_e_tol')


# =========================================================================================================== C03 / C01
def oracle_c03(tr, sc):
    ctx, res = tr.ctx, tr.res
    cfg = sc['config']
    V = lambda clause, site, detail, **ident: res.violate('C03', clause, site, detail, ident=ident)  # noqa: E731
    if tr.exc is not None:
        if tr.exc[0] == 'StepCapExceeded':
            res.probe('skipped_step_cap')
            over, worst, K_, nf = _budget_exceeded_before_cap(ctx, sc)
            if over:
                V('iteration_budget', 'CheckConvergence', f'a step started {worst} iterations with maxiter {K_} and {nf} forced continuation(s) in the script (run stopped by the event cap of the harness)')
        else:
            V('unexpected_exception', tr.exc[0], tr.exc[1])
        return
    K = cfg['step']['maxiter']
    restol = cfg['level']['restol']
    guess = cfg['sweeper']['params'].get('initial_guess', 'spread')
    forced = {(b, s, k): w for b, s, k, w in sc['faults'].get('force', [])}
    for rec in ctx.shadow_recs:
        consistent = rec['iter'] > 0 or guess == 'spread'
        if consistent and np.isfinite(rec['shadow']) and np.isfinite(rec['S']):
            if abs(rec['reported'] - rec['shadow']) > 64 * EPS * rec['S'] + 1e-300:
                V(
                    'residual_not_true_defect',
                    'Sweeper.compute_residual',
                    f"{rec['at']} block {rec['block']} slot {rec['slot']} level {rec.get('level', 0)} iter {rec['iter']}: reported residual {rec['reported']!r}, defect recomputed from the node values {rec['shadow']!r} (rounding scale {rec['S']:.2e})",
                    at=rec['at'],
                )
            res.probe('residual_checked')
    # stopping soundness at post_step
    own_inc = {(rec['block'], rec['slot'], rec['iter']): rec.get('own_inc') for rec in ctx.shadow_recs if rec['at'] == 'post_iteration' and rec.get('level', 0) == 0}
    for rec in ctx.shadow_recs:
        if rec['at'] != 'post_step':
            continue
        a2d = cfg['controller'].get('all_to_done')
        by_budget = rec['iter'] >= K
        flagged = any(bb in (rec['block'], -1) and (a2d or s == rec['slot']) and w == 'done' for (bb, s, k), w in forced.items())
        r = rec['shadow'] if np.isfinite(rec['shadow']) else rec['reported']
        margin = 64 * EPS * rec['S']
        if rec['iter'] > K:
            cont = any(bb in (rec['block'], -1) and (a2d or s <= rec['slot']) and w == 'continue' for (bb, s, k), w in forced.items())
            if not cont:
                V('iteration_budget', 'CheckConvergence', f"block {rec['block']} slot {rec['slot']}: finished with iter {rec['iter']} > maxiter {K}")
        if by_budget or flagged:
            if by_budget:
                res.probe('stopped_by_maxiter')
            continue
        if rec['iter'] == 0 and cfg['controller'].get('predict_type') is None and rec['reported'] <= restol:
            # finished at iteration 0 on the strength of the residual of the unswept initial guess (for 'copy'/'zero' guesses not
            # even the defect of the node values): the zero-sweep root cause, whatever the true defect is
            V('stopped_without_sweep', 'CheckConvergence.check_convergence', f"block {rec['block']} slot {rec['slot']} declared finished at iteration 0 without any sweep (reported residual {rec['reported']!r} <= restol {restol!r}, true defect {r!r})", kind='zero_sweeps_iter0')
        elif not (r <= restol + margin):  # above the tolerance, or not a number
            e_tol = cfg['level'].get('e_tol')
            inc = own_inc.get((rec['block'], rec['slot'], rec['iter']))
            if e_tol and rec['iter'] >= 1 and inc is not None and inc < e_tol * (1 + 1e-12):
                res.probe('stopped_by_increment')  # the configured increment tolerance was met in the step's own last iteration
            else:
                V('stopped_above_tolerance', 'it_check', f"block {rec['block']} slot {rec['slot']} finished at iter {rec['iter']} < maxiter {K} with defect {r!r} > restol {restol!r} and no force flag" + (f" (e_tol {e_tol!r}, increment of the last iteration {inc!r})" if e_tol else ''), nan=bool(r != r))
        elif r <= restol - margin:
            res.probe('stopped_by_residual')
            if rec['iter'] == 0 and cfg['controller'].get('predict_type') is None:
                # no iteration, no predictor sweep: finished without a single sweep
                V('stopped_without_sweep', 'CheckConvergence.check_convergence', f"block {rec['block']} slot {rec['slot']} declared finished at iteration 0 without any sweep (residual {r!r} <= restol {restol!r})", kind='zero_sweeps_iter0')
    # logged values equal what the step held
    if tr.stats:
        lookup = {}
        for k, v in tr.stats.items():
            if k.type in ('residual_post_iteration', 'residual_post_step', 'niter'):
                lookup[(k.type, k.process, fbits(k.time), k.iter if k.type != 'residual_post_step' else None)] = v
        for rec in ctx.shadow_recs:
            if rec['at'] == 'post_sweep':
                continue
            typ = 'residual_post_iteration' if rec['at'] == 'post_iteration' else 'residual_post_step'
            key = (typ, rec['slot'], fbits(rec['time']), rec['iter'] if typ != 'residual_post_step' else None)
            if key in lookup and fbits(lookup[key]) != fbits(rec['reported']):
                V('logged_residual_differs', 'DefaultHooks', f"{typ} logged {lookup[key]!r}, level held {rec['reported']!r} (block {rec['block']} slot {rec['slot']} iter {rec['iter']})")
        for a in ctx.attempts:
            if a.get('post'):
                v = lookup.get(('niter', a['slot'], fbits(a['t']), a['iter']))
                if v is None or v != a['niter_cb']:
                    V('niter_mismatch', 'DefaultHooks.post_step', f"logged niter {v} vs {a['niter_cb']} iterations performed (block {a['block']} slot {a['slot']})")


def oracle_c01(tr, sc):
    ctx, res = tr.ctx, tr.res
    cfg = sc['config']
    V = lambda clause, site, detail, **ident: res.violate('C01', clause, site, detail, ident=ident)  # noqa: E731
    if tr.exc is not None:
        if tr.exc[0] == 'StepCapExceeded':
            res.probe('skipped_step_cap')
        else:
            V('unexpected_exception', tr.exc[0], tr.exc[1])
        return
    sh = ctx.shadow
    sp = cfg['sweeper']['params']
    quad = sp.get('quad_type', 'RADAU-RIGHT')
    coll_update = bool(sp.get('do_coll_update')) or quad in ('GAUSS', 'RADAU-LEFT')
    restol = cfg['level']['restol']
    post = {(r['block'], r['slot']): r for r in ctx.shadow_recs if r['at'] == 'post_step'}
    acc = [a for a in ctx.attempts if a.get('post') and a.get('accepted')]
    acc.sort(key=lambda a: (a['block'], a['slot']))
    prev, prev_conv = None, False
    lag_cfg = cfg['P'] > 1 and not isinstance(sp.get('num_nodes'), list) and coll_update
    fault_on_u0 = any(f.get('node') == 0 for f in sc['faults'].get('soft', []))
    for a in acc:
        rec = post.get((a['block'], a['slot']))
        if rec is None or not np.isfinite(rec['full']):
            prev = None
            continue
        # the step starts from the previous accepted step's end value (the first from the caller's value): bitwise chaining is
        # C06's clause; here, for two consecutive steps that both report convergence, up to a small multiple of the tolerance
        # (not judged: collocation-update multi-step configurations = finding F09, histories in which a soft fault hit an initial value)
        rtype0 = cfg['level'].get('residual_type', 'full_abs')
        if prev is not None and not fault_on_u0 and restol > 0 and rec['reported'] <= restol and prev_conv:
            x0, xe = np.asarray(a['u0_post']).reshape(-1), np.asarray(prev['uend']).reshape(-1)
            if x0.shape == xe.shape:
                dd = float(np.max(np.abs(x0 - xe))) if x0.size else 0.0
                sc_ = float(np.max(np.abs(xe))) if xe.size else 0.0
                tol0 = restol * (sc_ if rtype0.endswith('rel') else 1.0)
                # collocation-update multi-step configurations (finding F09): the predecessor's reported end value lags its sent one by
                # the last change of its own initial value, which its residual bounds only up to cancellation (15 x tol observed): 1e3 x tol
                if dd > (1e3 if lag_cfg else 10) * tol0 + 64 * EPS * sc_:
                    V('start_not_previous_end', 'it_check', f"step at t={a['t']!r} (block {a['block']} slot {a['slot']}) and its predecessor both report convergence, but it starts {dd:.3e} away from the predecessor's end value (restol {restol:.3e})")
        prev, prev_conv = a, rec['reported'] <= restol
        uref, kend, kappa, Un, normA = sh.reference_step(a['u0_post'], a['t'], a['dt'], coll_update)
        tau = rec['full']
        err = float(np.max(np.abs(np.asarray(a['uend']).reshape(-1) - uref)))
        # defect-proportional term + rounding of the defect itself + rounding of evaluating A*U in both computations
        bound = kend * (tau * (1 + 1e-6) + 64 * EPS * rec['S']) + 256 * EPS * (kappa + 1) * (1 + a['dt'] * normA) * max(Un, 1e-300) * (len(uref) ** 0.5 + 1)
        converged = rec['reported'] <= restol
        if converged:
            res.probe('step_converged_to_tolerance')
        else:
            res.probe('step_not_converged_budget')
        if err > bound and a['iter'] == 0 and cfg['controller'].get('predict_type') is None:
            # finished at iteration 0 without a sweep: for 'copy'/'zero'/'random' guesses the level's f does not even belong to its u
            V('stopped_without_sweep', 'CheckConvergence.check_convergence', f"step at t={a['t']!r} was declared finished at iteration 0 without any sweep and its end value is not the collocation solution (error {err:.3e})", kind='zero_sweeps_iter0')
        elif err > bound:
            V(
                'not_collocation_solution',
                'end value',
                f"step at t={a['t']!r} dt={a['dt']!r} (block {a['block']} slot {a['slot']}, iter {a['iter']}): |uend - collocation solution| = {err:.3e} > kappa_end*defect + rounding = {bound:.3e} (defect {tau:.3e}, kappa_end {kend:.2e}, converged={converged})",
                converged=converged,
            )
        # the premise as the user sees it: the step was iterated to its residual tolerance (reported residual <= restol)
        rtype = cfg['level'].get('residual_type', 'full_abs')
        if converged and rtype in ('full_abs', 'full_rel') and restol > 0:
            u0n = float(np.max(np.abs(np.asarray(a['u0_post'])))) if np.asarray(a['u0_post']).size else 0.0
            tol_abs = restol if rtype == 'full_abs' else restol * u0n
            bound2 = kend * (tol_abs * (1 + 1e-6) + 64 * EPS * rec['S']) + 256 * EPS * (kappa + 1) * (1 + a['dt'] * normA) * max(Un, 1e-300) * (len(uref) ** 0.5 + 1)
            if err > bound2 and a['iter'] == 0 and cfg['controller'].get('predict_type') is None:
                V('stopped_without_sweep', 'CheckConvergence.check_convergence', f"step at t={a['t']!r} was declared converged at iteration 0 without any sweep (residual of the unswept initial guess {rec['reported']:.3e} <= restol) and its end value is not the collocation solution (error {err:.3e})", kind='zero_sweeps_iter0')
            elif err > bound2:
                V(
                    'converged_but_not_collocation_solution',
                    'end value',
                    f"step at t={a['t']!r} (block {a['block']} slot {a['slot']}) reported residual {rec['reported']:.3e} <= restol {restol:.3e}, but |uend - collocation solution| = {err:.3e} > kappa_end*restol + rounding = {bound2:.3e}",
                )
    # fixed-point probe: an iteration that starts on the fine collocation solution (of the first step of a block, whose initial
    # value nobody changes) must end on it, whatever preconditioner, coarse levels, predictor or coupling are configured
    if getattr(ctx, 'exact_probes', None):
        recs = {(r['block'], r['slot'], r['iter']): r for r in ctx.shadow_recs if r['at'] == 'post_iteration' and r.get('level', 0) == 0}
        later = {(f['block'], f['slot']) for f in sc['faults'].get('soft', []) if f['kind'] != 'exact'}
        for b, sl, k in ctx.exact_probes:
            r = recs.get((b, sl, k))
            if r is None or (b, sl) in later or not np.isfinite(r['full']) or sc.get('problem_kind') == 'advection':
                continue  # (advection with central differences: purely imaginary spectrum, the iteration amplifies rounding by many orders)
            s_abs = r.get('S_abs')
            if s_abs is None or not np.isfinite(s_abs):
                continue
            res.probe('fixed_point_probe')
            if r['full'] > 1e-9 * max(s_abs, 1e-300):  # clean runs stay below 2e-12 of the rounding scale of the absolute defect
                V('collocation_solution_not_a_fixed_point', 'iteration', f"block {b} slot {sl}: iteration {k} started on the fine collocation solution and ended with defect {r['full']:.3e} (rounding scale {s_abs:.3e})")
    if acc and not same_bytes(tr.ret_copy, acc[-1]['uend']):
        V('returned_value', 'run', 'returned value is not the end value of the last step')


def _budget_exceeded_before_cap(ctx, sc):
    """A run stopped by the harness's event cap: did a step exceed its iteration budget by more than all forced continuations
    of the script together could account for?  (Each forced continuation adds at most one iteration to the steps of a block.)"""
    K = sc['config']['step']['maxiter']
    nforce = sum(1 for f in sc['faults'].get('force', []) if f[3] == 'continue')
    worst = max((a.get('niter_cb', 0) for a in ctx.attempts), default=0)
    return worst > K + nforce + 1, worst, K, nforce


def oracle_c03_injected(tr, sc):
    """Stopping soundness under injected verdict/force patterns (the residual itself is the injected 0/1)."""
    ctx, res = tr.ctx, tr.res
    cfg = sc['config']
    V = lambda clause, site, detail, **ident: res.violate('C03', clause, site, detail, ident=ident)  # noqa: E731
    if tr.exc is not None:
        if tr.exc[0] != 'StepCapExceeded':
            V('unexpected_exception', tr.exc[0], tr.exc[1])
        else:
            over, worst, K_, nf = _budget_exceeded_before_cap(ctx, sc)
            if over:
                V('iteration_budget', 'CheckConvergence', f'a step started {worst} iterations with maxiter {K_} and {nf} forced continuation(s) in the script (run stopped by the event cap of the harness)')
        return
    K = cfg['step']['maxiter']
    a2d = cfg['controller'].get('all_to_done')
    force = sc['faults'].get('force', [])
    for a in ctx.attempts:
        if not a.get('post'):
            continue
        b, s = a['block'], a['slot']
        chk = a.get('checks', [])
        if not chk:
            continue
        last_iter, last_res, _, _ = chk[-1]
        done_forced = any(bb in (b, -1) and (a2d or ss == s) and w == 'done' and k <= last_iter for bb, ss, k, w in force)
        cont_forced = sum(1 for bb, ss, k, w in force if bb in (b, -1) and (a2d or ss <= s) and w == 'continue' and k >= K)
        if a['iter'] > K + cont_forced:
            V('iteration_budget', 'CheckConvergence', f'block {b} slot {s}: iter {a["iter"]} > maxiter {K} with {cont_forced} forced continuation(s)')
        if a['iter'] >= K or done_forced:
            continue
        if last_res > cfg['level']['restol']:
            V('stopped_above_tolerance', 'it_check', f'block {b} slot {s} finished at iter {a["iter"]} < maxiter {K} although its last verdict was "not converged" and nothing forced it')
        elif a['iter'] == 0 and cfg['controller'].get('predict_type') is None:
            V('stopped_without_sweep', 'CheckConvergence.check_convergence', f'block {b} slot {s} declared finished at iteration 0 without any sweep', kind='zero_sweeps_iter0')
        if a['iter'] != a['niter_cb']:
            V('niter_mismatch', 'DefaultHooks.post_step', f'status.iter {a["iter"]} vs {a["niter_cb"]} iterations performed')


# =========================================================================================================== C13
def oracle_c13(tr, sc):
    """Run-level clause: the caller's initial value is never modified; whatever a run returned or logged is unchanged by
    later steps of the same run and by later runs on the same controller.  Evaluated after the last leg."""
    res = tr.res
    V = lambda clause, site, detail, **ident: res.violate('C13', clause, site, detail, ident=ident)  # noqa: E731
    for leg in tr.legs:
        if leg.exc is not None and leg.exc[0] not in ('ConvergenceError', 'StepCapExceeded'):
            V('unexpected_exception', leg.exc[0], leg.exc[1])
            return
        if not same_bytes(leg.u0_before, leg.u0_after):
            V('caller_u0_modified', 'controller.run', f'leg {leg.leg}: the initial value object passed by the caller was modified during run()')
        # the object itself, now (after all later legs)
        if not same_bytes(leg.u0_before, np.array(leg.u0_obj)):
            V('caller_u0_modified', 'controller.run', f'leg {leg.leg}: the initial value object passed by the caller was modified by a later run on the same controller', later=True)
        if leg.ret is not None and not same_bytes(leg.ret_copy, np.array(leg.ret)):
            V('returned_value_changed', 'controller.run', f'leg {leg.leg}: the returned solution object changed after it was returned')
        n = 0
        for w in getattr(leg.ctx, 'stat_writes', []):
            kind, key, value, hook, seq, dig = w
            if dig is None:
                continue
            n += 1
            if bdigest(value) != dig:
                V('logged_value_changed', hook, f"leg {leg.leg}: the array logged as {key.type!r} at time {key.time!r} (process {key.process}, iter {key.iter}) was changed after it was logged", type=key.type)
        if n:
            res.probe('logged_arrays_checked', n)
        # end values of finished steps are frozen until the end of their block
        for b in leg.ctx.blocks:
            for f, a in zip(b.get('final', []), [x for x in leg.ctx.attempts if x['block'] == b['index']]):
                pass
    for leg in tr.legs:
        for a in leg.ctx.attempts:
            if a.get('post') and a.get('uend_obj') is not None and a.get('uend') is not None:
                if not same_bytes(a['uend'], np.array(a['uend_obj'])):
                    V('step_end_value_changed', 'Level.uend', f"leg {leg.leg} block {a['block']} slot {a['slot']}: the end value object a finished step held at post_step was modified later")
                    break
