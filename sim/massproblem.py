"""A small linear test problem with a mass matrix, M u' = A_impl u + A_expl u, owned by the harness, so that pySDC's
real `imex_1st_order_mass` sweeper (its own residual and update formulas) can be driven without FEniCS.
The problem itself is a STUB (listed as such in the evidence); the sweeper, level, controller code are the real ones."""
import numpy as np

from pySDC.core.problem import Problem
from pySDC.implementations.datatype_classes.mesh import mesh, imex_mesh


class MassDahlquist(Problem):
    dtype_u = mesh
    dtype_f = imex_mesh
    fix_bc_for_residual = False

    def __init__(self, n=3, seed=0, stiffness=1.0):
        super().__init__(init=(n, None, np.dtype('float64')))
        self._makeAttributeAndRegister('n', 'seed', 'stiffness', localVars=locals(), readOnly=True)
        rng = np.random.RandomState(seed)
        B = rng.uniform(-1, 1, size=(n, n))
        self.M = np.eye(n) * (1.0 + rng.uniform(0, 1, size=n)) + 0.1 * (B + B.T) / 2
        C = rng.uniform(-1, 1, size=(n, n))
        self.A_impl = -stiffness * (np.eye(n) * (1.0 + rng.uniform(0, 2, size=n)) + 0.2 * (C @ C.T) / n)
        self.A_expl = 0.3 * rng.uniform(-1, 1, size=(n, n))

    def apply_mass_matrix(self, u):
        me = self.dtype_u(self.init)
        me[:] = self.M @ np.asarray(u)
        return me

    def eval_f(self, u, t):
        f = self.dtype_f(self.init)
        f.impl[:] = self.A_impl @ np.asarray(u)
        f.expl[:] = self.A_expl @ np.asarray(u)
        return f

    def solve_system(self, rhs, factor, u0, t):
        me = self.dtype_u(self.init)
        me[:] = np.linalg.solve(self.M - factor * self.A_impl, np.asarray(rhs))
        return me

    def u_exact(self, t, **kwargs):
        me = self.dtype_u(self.init)
        me[:] = np.cos(np.arange(self.n) + 1.0)
        return me


class TwoPartDahlquist(Problem):
    """u' = A1 u + A2 u + b(t) with two implicit parts (for pySDC's real `multi_implicit` sweeper); harness-owned stub problem."""

    from pySDC.implementations.datatype_classes.mesh import comp2_mesh as _comp2

    dtype_u = mesh
    dtype_f = _comp2

    def __init__(self, n=3, seed=0, stiffness=1.0, forcing=0.0):
        super().__init__(init=(n, None, np.dtype('float64')))
        self._makeAttributeAndRegister('n', 'seed', 'stiffness', 'forcing', localVars=locals(), readOnly=True)
        rng = np.random.RandomState(seed)
        C1, C2 = rng.uniform(-1, 1, size=(n, n)), rng.uniform(-1, 1, size=(n, n))
        self.A1 = -stiffness * (np.eye(n) * (1.0 + rng.uniform(0, 2, size=n)) + 0.2 * (C1 @ C1.T) / n)
        self.A2 = -0.5 * stiffness * (np.eye(n) * rng.uniform(0.2, 1, size=n) + 0.2 * (C2 @ C2.T) / n)
        self.bvec = forcing * rng.uniform(-1, 1, size=n)

    def eval_f(self, u, t):
        f = self.dtype_f(self.init)
        f.comp1[:] = self.A1 @ np.asarray(u) + self.bvec * np.cos(t)
        f.comp2[:] = self.A2 @ np.asarray(u)
        return f

    def solve_system_1(self, rhs, factor, u0, t):
        me = self.dtype_u(self.init)
        me[:] = np.linalg.solve(np.eye(self.n) - factor * self.A1, np.asarray(rhs) + factor * self.bvec * np.cos(t))
        return me

    def solve_system_2(self, rhs, factor, u0, t):
        me = self.dtype_u(self.init)
        me[:] = np.linalg.solve(np.eye(self.n) - factor * self.A2, np.asarray(rhs))
        return me

    def u_exact(self, t, **kwargs):
        me = self.dtype_u(self.init)
        me[:] = np.sin(np.arange(self.n) + 1.0) + 1.0
        return me


from pySDC.core.space_transfer import SpaceTransfer  # noqa: E402


class IdentityTransferWithProject(SpaceTransfer):
    """Identity space transfer (same problem on every level, coarsening in the nodes only) offering the `project` method
    that pySDC's real `base_transfer_mass` calls; harness-owned stub."""

    def project(self, F):
        return type(F)(F)

    def restrict(self, F):
        return type(F)(F)

    def prolong(self, G):
        return type(G)(G)
