"""python -m sim.tools.mkmanifest: (re)write /verif/MANIFEST.json from the table below and validate it."""
import json
import os

import sim

PY = '/venv/bin/python'

NA = {
    'C02': 'not applicable: a single update_nodes/integrate/compute_end_point call is a deterministic function of the level state it is given; no schedule, clock, fault or history enters (DESIGN 4)',
    'C04': 'not applicable: Taylor coefficients of the one-step stability function are a pure function of (nodes, preconditioner, k); nothing to schedule or to fault (DESIGN 4)',
    'C05': 'not applicable: nodes, weights and Q/S matrices are pure functions of (family, type, M, interval) (DESIGN 4)',
    'C10': 'not applicable: one restrict-sweep-prolong cycle on a given fine state is a pure composite function; no interleaving, fault or history (DESIGN 4)',
    'C11': 'not applicable: transfer matrices and their polynomial exactness are pure functions of grids/orders (DESIGN 4)',
    'C12': 'not applicable: solve_system/eval_f/u_exact contracts are per-call statements over stateless problem classes; no interleaving, I/O or fault involved (DESIGN 4)',
    'C15': 'not applicable: DFT/diagonalisation identities and a one-shot direct solve are linear-algebra facts per (n, alpha, M); the ParaDiag controller exists only as a serial emulation, no schedule to vary (DESIGN 4)',
    'C17': 'not applicable: spectral operators are pure functions of resolution/basis (DESIGN 4)',
    'C18': 'not applicable: finite-difference stencils/matrices are pure functions of (derivative, order, stencil, grid) (DESIGN 4)',
    'C20': 'not applicable: construction-time interpretation/rejection of description dictionaries happens before any run; perturbing a dictionary is input mutation, not a fault in an execution (DESIGN 4)',
}

PLANNED = 'simulation target per DESIGN 3, but its check is not built/validated yet in this tree, so it is not claimed'

CHECKS = {}


def check(pid, engine, category, text, note, technique, design_ref):
    CHECKS[pid] = {
        'property_id': pid,
        'quick_cmd': f'{PY} -m sim.check {pid} --tier quick',
        'thorough_cmd': f'{PY} -m sim.check {pid} --tier thorough',
        'evidence_file': f'/verif/evidence/{pid}.json',
        'replay_cmd_template': f'{PY} -m sim.replay {{path}}',
        'engine': engine,
        'level_claimed': {'category': category, 'text': text, 'design_ref': design_ref},
        'level_note': note,
        'technique': technique,
    }


check(
    'C16',
    'simfs',
    'fault_enumeration',
    'Every byte offset of an append and of header creation is enumerated as a crash point for all 6 dtypes x 5 small layouts '
    '(complete for that sub-space), plus seeded random histories of create/append/re-open/read/overwrite/crash operations and '
    'LogToFile runs killed at a hook event or inside an append and resumed in a fresh process; after every operation everything '
    'readable is compared bit for bit with a list-of-records model. Sampling beyond the enumerated sub-space is evidence, not proof.',
    'Process-crash model (completed writes survive, the in-flight write is cut at any byte; no power-loss reordering). Crashes are '
    'produced by the kernel (RLIMIT_FSIZE + SIGXFSZ in a forked child). MPI-IO paths of Rectilinear are not simulated. The block '
    'decomposition clause is a pure function and is enumerated without scheduler involvement.',
    'deterministic simulation: seeded operation/crash histories on the real FieldsIO against a reference model, exhaustive crash-offset enumeration, kill/resume of LogToFile runs',
    'DESIGN 3 (C16), 2.4',
)

check(
    'C07',
    'blocksim',
    'fault_enumeration',
    'All 2^(P*K) per-(step, iteration) convergence patterns are enumerated for P<=3,K<=3 (quick) / P<=4,K<=4 (thorough) times 56 '
    'configurations (1-3 levels, every predictor, both couplings, all_to_done, 1-2 fine sweeps) on the real controller_nonMPI, '
    'plus seeded samples up to P=8, K=8, 3 blocks (30 % with a partly filled last block) with force_done/force_continue flags; nine invariants (no protocol error, '
    'lock-step at pfasst() entry, finish order, frozen after finish, transfer matching against an independent mailbox model (level, iteration, sender, and every forward transfer consumed exactly once), '
    'termination within a derived callback bound, callback grammar, all_to_done equal iterations, iteration budget) are checked on every run.',
    'The convergence verdict is injected by a plug-in convergence controller at order 190 (stub physics: 1-dof test equation); all other '
    'code is the shipped one. Complete only for the enumerated bounds; beyond them it is sampling. The MPI controller is covered by C08.',
    'deterministic simulation: exhaustive enumeration of injected convergence histories + seeded sampling on the real serial controller, invariant and grammar checks over the recorded event history',
    'DESIGN 3 (C07), 2.2',
)

check(
    'C06',
    'blocksim',
    'exploration',
    'Seeded histories of the real controller_nonMPI over drawn time axes (binary/decimal/ragged/long/offset/short), P 1..8, 1-3 levels, '
    'with restart requests and step-size proposals injected at scripted (block, slot) positions; accepted steps are reconstructed from '
    'pre_step/post_step observations and checked bitwise for chaining, up to rounding for tiling, for the end time, the returned value, '
    'aliasing of the caller value and (fixed step) the step count against exact rational arithmetic.',
    'Stub physics (1-dof test equation); restart/step-size decisions come from the script. Sampling, not proof. Known finding F02 '
    '(sliver step at Tend), F09 (collocation-update lag in multi-step runs) and F18 (ParaDiag solves to the end of its block) are reported as '
    'KNOWN-FINDING. controller_ParaDiag_nonMPI is driven with fixed steps; inside a ParaDiag block start values are compared up to 1e3*restol. '
    '8 % of the histories drive the real controller_MPI on the simulated MPI (1-5 time ranks, seeded schedule), the merged observations of all ranks are judged by the same oracle; '
    'MPI runs that deadlock or abort are left to C08.',
    'deterministic simulation: seeded restart/step-size fault histories on the real serial, ParaDiag and (simulated-)MPI controllers, history check of the recorded accepted-step sequence',
    'DESIGN 3 (C06), 2.2',
)

check(
    'C09',
    'blocksim',
    'exploration',
    'Seeded fault sequences on the real Adaptivity/AdaptivityRK + limiters + BasicRestartingNonMPI + SpreadStepSizesBlockwiseNonMPI under the '
    'real controller_nonMPI: scripted error estimates (physical background c*dt^(order+1) x noise, excursions, exact ties, failure runs longer '
    'than the retry budget) and restart requests at (block, slot) positions, plus real adaptive runs on van der Pol / Lorenz / Dahlquist. Six '
    'oracles: restart position and value (bitwise), one step size per block (bitwise), retry budget + counter hand-over against a reference + '
    'progress, accept criterion, proposal formula and limiter chain against a 15-line reference (8 eps), retry smaller unless a lower limit binds, '
    'and (R7) with overwrite_to_reach_Tend the run ends within the documented slack of Tend. Part B also drives AdaptivityRK, '
    'AdaptivityPolynomialError, AdaptivityExtrapolationWithinQ and avoid_restarts.',
    'Part A overwrites the value of the embedded estimate at control order -60; everything else is shipped code. Runs hitting the block/step cap '
    'are skipped and counted (no liveness claim for adversarial scripts). AdaptivityCollocation/AdaptivityResidual not driven. MPI flavours: C08.',
    'deterministic simulation: seeded error-estimate/restart fault sequences on the real step-size controllers, reference-model comparison of every decision point in the recorded history',
    'DESIGN 3 (C09), 2.2',
)

check(
    'C14',
    'blocksim',
    'exploration',
    'The restart/step-size/convergence histories of C06, C07 and C09-A are run with every per-step logging hook enabled; the reference is the '
    'observer event log, independent eval_f counts from counting problem subclasses and a spy on Hooks.add_to_stats. Checked per accepted step '
    'and quantity: exactly one record after filter_stats(recomputed=False), key fields (process, iter, num_restarts), values (niter vs callbacks, '
    'dt, u bits, work counters), per-iteration records (residual_post_iteration: iterations 1..niter with the step\'s slot and restart count), quantities expected from the '
    'configuration even when no record exists, overwritten records, untyped filtering, extra keys carried by every record of a type, filter/sort helpers against reference comprehensions.',
    'Known findings F03 (restart count not monotone per time key defeats the recomputed filter) and F04 (middle-level sweep key collision) are '
    'reported as KNOWN-FINDING; violations at time keys tainted by F03 are attributed to it. Aborted runs (ConvergenceError) are not judged. '
    'timing_* records excluded.',
    'deterministic simulation: seeded restart histories with logging hooks, statistics compared with an independent event-log reference model',
    'DESIGN 3 (C14), 2.2',
)

check(
    'C03',
    'blocksim',
    'exploration',
    'Real SDC/MLSDC/PFASST runs of controller_nonMPI over the property\'s configuration space (all residual types, initial guesses, 1-3 levels, '
    'P 1..8, predictors, couplings, tolerances reached at iteration 0/1/.../never) with soft faults in iterates producing non-monotone residual '
    'histories, plus injected verdict/force patterns. At every post_iteration/post_step a shadow problem instance recomputes the collocation '
    'defect from the node values held (Q from qmat) and compares with the reported residual within a derived rounding bound; stopping soundness, '
    'iteration budget and logged values are judged on the recorded history; with an increment tolerance (e_tol) a stop above restol is accepted only if the harness\'s own '
    'increment of that step\'s last iteration is below it; NaN soft faults (a residual that is not a number is not at most the tolerance).',
    'Sampling. Known finding F08 (finished at iteration 0 without a sweep) is reported as KNOWN-FINDING. Soft faults are never placed between '
    'the computation of a residual and the decision taken on it. imex_1st_order_mass (one or two levels, real base_transfer_mass with a harness-owned identity space transfer) and multi_implicit are driven on harness-owned problem '
    'classes (sim/massproblem.py, listed as stubs). MPI flavour: C08.',
    'deterministic simulation: seeded soft-fault and convergence histories on the real controller, invariant checked at every callback against an independent re-evaluation',
    'DESIGN 3 (C03)',
)

check(
    'C01',
    'blocksim',
    'exploration',
    'Whole multi-party runs (P steps x L levels, every predictor, both couplings, 1-3 sweeps, node families/quadrature types, implicit/explicit/'
    'IMEX preconditioners, node and space coarsening) of the real controller_nonMPI on linear and IMEX-split problems, with soft faults in '
    'iterates as transient-state perturbations; refinement against a sequential dense single-level collocation solver started from the actual '
    'end value of the previous step: |uend - uend_ref| <= kappa_end*(actual defect) + derived rounding.',
    'Sampling; linear/affine problems only (A, b(t) probed from a shadow instance). The bound is a consequence of linear algebra for any state, '
    'so it detects end values/defects inconsistent with the node values, not slow convergence; a second clause judges steps whose REPORTED '
    'residual meets restol against kappa*restol, a third one requires that two consecutive converged steps are chained (start value within 10*restol of the predecessor\'s end value). A fixed-point probe (soft fault: the first step of a block is put onto its fine collocation solution before an iteration) must end on that solution.'
    '  multi_implicit is driven on a harness-owned two-part problem. Known finding F12. MPI flavour: C08.',
    'deterministic simulation: seeded soft-fault injection into multi-level multi-step runs, refinement check against an executable reference model',
    'DESIGN 3 (C01)',
)

check(
    'C13',
    'blocksim',
    'exploration',
    'Run-level clause: histories of one or more run() legs on one real controller_nonMPI (restart/step-size histories, real multi-level '
    'physics, adaptive SDC/RK runs, DAE sweepers that update nodes in place) with LogSolution/LogSolutionAfterIteration and with in-place '
    'corruptions of iterates by a hook (the way Resilience.FaultInjector writes); a spy keeps every logged array with its digest at logging '
    'time; the caller\'s initial value, every returned value, every logged array and the end value object of every finished step are '
    'compared byte for byte again after the last leg. Data-type clause: seeded histories of constructions, aliases, views, operations, augmented '
    'assignments and writes on a pool of names over mesh / imex_mesh / comp2_mesh / MeshDAE / particles.position / acceleration, every name compared '
    'with a plain-numpy reference model after every operation.',
    'The data-type part injects no fault and has no schedule (operation histories against a reference model only: the weakest form of the technique); '
    'cupy/petsc/fenics/firedrake data types are not importable here. Latent aliasing without observable change is not reported. MPI buffer clause: C08.',
    'deterministic simulation: seeded multi-run histories with in-place fault injection, byte-level history check of caller, returned and logged values; seeded aliasing histories against a reference model',
    'DESIGN 3 (C13)',
)

check(
    'C19',
    'blocksim',
    'exploration',
    'Process histories of up to 8 operations without fork in between over a pool of up to 3 real controllers (fixed-step SDC/MLSDC/PFASST on '
    'stub and real physics; an adaptive/RK controller registering extra status variables, hooks and convergence controllers; two controllers '
    'built from the very same dictionaries, or from dictionaries another RK/adaptive controller was built from just before): new, run, rerun, '
    'run aborted by a user hook, run of another interval on a used controller, split at a block boundary and continue on the same or a fresh controller. Reference for every run: the same run alone in a freshly forked child; returned value and '
    'statistics must agree bit for bit (timing values aside), split runs must reproduce the uninterrupted per-step records.',
    'Known findings F10 (RNG stream of initial_guess=random), F11 (space transfer of order >= 6 depends on numpy\'s global RNG through '
    'scipy BarycentricInterpolator) and F17 (sweep-index dependent preconditioner left at its last index) are reported as KNOWN-FINDING. The harness pins numpy\'s global RNG at the start of every history so that '
    'histories replay exactly.',
    'deterministic simulation: seeded operation histories over long-lived controllers in one process, differential check against isolated (forked) reference executions',
    'DESIGN 3 (C19)',
)

check(
    'C08',
    'simmpi',
    'exploration',
    'The real controller_MPI (1-5 time ranks), the node-parallel sweepers generic_implicit_MPI/imex_1st_order_MPI with base_transfer_MPI '
    '(2-4 node ranks, 2-D rank grid via Split), and the MPI flavours of BasicRestarting, SpreadStepSizesBlockwise, CheckConvergence, Adaptivity '
    'and the embedded error estimator run unmodified on a simulated mpi4py: ranks are threads of which exactly one runs, a seeded scheduler '
    '(uniform, PCT priorities, starve-one, run-ahead, round-robin) decides the interleaving at every MPI call, completion timing of every '
    'matched non-blocking operation, buffering of standard sends, early exits of bcast/Reduce, and scribbles pending receive buffers. Each run '
    'is compared with its serial counterpart executed in the same process, attempt by attempt (times up to rounding, step sizes, iterations, '
    'restart flags and counters, end values bitwise while times agree bitwise, returned and logged values), plus deadlock, unmatched/incomplete '
    'messages, collective consistency, send-buffer integrity and termination.',
    'The simulated MPI implements the weakest behaviour the standard allows as read from the standard; it is not validated against a real MPI '
    '(none installable). Ranks share one interpreter. Iteration estimator (Ibcast/Cancel) excluded as the property says. Known findings F13 '
    '(sliver step at Tend differs between flavours), F14/F14b (forced stop on a later rank: deadlock / handled differently), F19 (collectives inside the iteration with restart_from_first_step need equal iteration counts) '
    'and F20 (linearized estimate with avoid_restarts) are reported as KNOWN-FINDING, consequences of these roots are attributed to them; with the linearized estimate on several ranks '
    'step sizes are compared to 1e-6 (cancellation in the estimate), otherwise to 1e-9. '
    'numpy\'s global RNG is pinned identically on every rank (finding F11).',
    'deterministic simulation: real MPI controller/sweepers on an in-process simulated MPI with a seeded scheduler over interleavings and completion orders, differential check against the serial emulation',
    'DESIGN 3 (C08), 2.3',
)


def build():
    claimed = sorted(CHECKS)
    allp = [json.loads(l)['id'] for l in open(os.path.join(sim.VERIF_DIR, 'properties.jsonl'))]
    na = []
    for p in allp:
        if p in claimed:
            continue
        na.append({'property_id': p, 'reason': NA.get(p, PLANNED)})
    engines = [
        {'name': 'simfs', 'path': 'sim/simfs.py', 'serves_properties': [p for p in claimed if CHECKS[p]['engine'] == 'simfs'],
         'kind_free_text': 'real FieldsIO/LogToFile on tmpfs; crash = forked child killed by the kernel at a chosen file offset; list-of-records reference model'},
        {'name': 'blocksim', 'path': 'sim/blocksim.py', 'serves_properties': [p for p in claimed if CHECKS[p]['engine'] == 'blocksim'],
         'kind_free_text': 'real controller_nonMPI under injected convergence/restart/error-estimate/soft-fault histories (injector convergence controllers + observer hooks)'},
        {'name': 'simmpi', 'path': 'sim/fake_mpi4py', 'serves_properties': [p for p in claimed if CHECKS[p]['engine'] == 'simmpi'],
         'kind_free_text': 'simulated MPI: fake mpi4py in sys.modules, ranks = baton-passing threads, seeded scheduler decides every interleaving and completion'},
    ]
    man = {
        'version': 1,
        'setup_cmd': f'{PY} -m sim.setup',
        'hooks': {
            'guard': 'PYSDC_VERIF',
            'enable': 'no hook exists in /repo: every seam the simulator needs is already there (plug-in convergence controllers and hooks, the mpi4py import, file paths); checks import pySDC from /repo (or VERIF_REPO) at run time',
            'baseline_off_cmd': 'cd /repo && env -u PYSDC_VERIF /venv/bin/python -m pytest -ra -q -p no:cacheprovider --timeout=900 --continue-on-collection-errors',
            'source_commits': [],
            'add_only': True,
        },
        'engines': [e for e in engines if e['serves_properties']],
        'checks': [CHECKS[p] for p in claimed],
        'not_applicable': na,
        'notes': 'Technique: deterministic simulation with fault injection. VERIF_SEED/VERIF_TIER honoured. exit 0 = held (KNOWN-FINDING lines possible), 1 = VIOLATION (replay verified in a fresh process), 2 = HARNESS-ERROR/TIMEOUT. Known findings: /verif/known_findings.json.',
    }
    return man


def main():
    man = build()
    path = os.path.join(sim.VERIF_DIR, 'MANIFEST.json')
    with open(path, 'w') as f:
        json.dump(man, f, indent=1)
    print('wrote', path, 'claimed:', [c['property_id'] for c in man['checks']])


if __name__ == '__main__':
    main()
