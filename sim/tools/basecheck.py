"""python -m sim.tools.basecheck <pytest paths...>: run part of the pinned suite in /repo (guard off) and list every
test of BASELINE.json's stable_pass set under those paths that did not pass."""
import json
import os
import subprocess
import sys
import tempfile
import xml.etree.ElementTree as ET


def main(paths):
    base = json.load(open('/root/.vp/BASELINE.json'))
    stable = set(base['stable_pass'])
    with tempfile.TemporaryDirectory(dir='/dev/shm') as d:
        xml = os.path.join(d, 'r.xml')
        cmd = ['/venv/bin/python', '-m', 'pytest', '-q', '-p', 'no:cacheprovider', '--timeout=900', '--continue-on-collection-errors',
               '-n', os.environ.get('BASECHECK_N', '12'), f'--junitxml={xml}', *paths]
        env = {k: v for k, v in os.environ.items() if k != 'PYSDC_VERIF'}
        subprocess.run(cmd, cwd='/repo', env=env, stdout=subprocess.DEVNULL, stderr=subprocess.DEVNULL)
        root = ET.parse(xml).getroot()
    seen, bad = set(), []
    for tc in root.iter('testcase'):
        tid = f"{tc.get('classname')}::{tc.get('name')}"
        ok = not any(ch.tag in ('failure', 'error', 'skipped') for ch in tc)
        seen.add(tid)
        if tid in stable and not ok:
            bad.append(tid)
    prefixes = tuple(p.rstrip('/').replace('/', '.').removesuffix('.py') for p in paths)
    missing = [t for t in stable if t.startswith(prefixes) and t not in seen]
    print(f'ran {len(seen)} tests; stable_pass tests failing: {len(bad)}; stable_pass tests not run under these paths: {len(missing)}')
    for t in bad[:40]:
        print('  FAIL', t)
    for t in missing[:10]:
        print('  MISSING', t)
    return 1 if bad or missing else 0


if __name__ == '__main__':
    sys.exit(main(sys.argv[1:]))
