"""Sensitivity runs: apply one mutant (string replacement spec or unified diff) to a scratch copy of /repo's working
tree (outside /repo and /verif, on tmpfs), run a check against it with VERIF_REPO, delete the copy.

  python -m sim.tools.mutate C16                 # all mutants of mutants/C16.json, quick tier, reduced n
  python -m sim.tools.mutate C16 --only M2
  python -m sim.tools.mutate C16 --diff /verif/seeded/x/patch.diff
"""
import argparse
import json
import os
import shutil
import subprocess
import sys
import tempfile

import sim


def scratch_copy():
    d = tempfile.mkdtemp(prefix='verif-mut-', dir='/dev/shm')
    subprocess.run(
        ['rsync', '-a', '--exclude', '.git', '--exclude', 'pySDC/playgrounds/*/data', '--exclude', 'pySDC/tutorial', '--exclude', 'docs',
         '--exclude', '__pycache__', '--exclude', 'pySDC/projects/*/data', '/repo/', d + '/'],
        check=True,
    )
    return d


def apply_spec(d, m):
    for ch in m['changes']:
        p = os.path.join(d, ch['file'])
        s = open(p).read()
        if s.count(ch['old']) != 1:
            raise SystemExit(f"mutant {m['id']}: pattern occurs {s.count(ch['old'])} times in {ch['file']}")
        open(p, 'w').write(s.replace(ch['old'], ch['new']))


def run_check(d, prop, extra_args, timeout=3600):
    env = dict(os.environ)
    env['VERIF_REPO'] = d
    ev = os.path.join(d, 'evidence.json')
    cmd = [sys.executable, '-m', 'sim.check', prop, '--evidence', ev, '--no-selftest', *extra_args]
    p = subprocess.run(cmd, cwd=sim.VERIF_DIR, env=env, capture_output=True, text=True, timeout=timeout)
    return p.returncode, p.stdout + p.stderr


def main():
    ap = argparse.ArgumentParser()
    ap.add_argument('prop')
    ap.add_argument('--only', default=None)
    ap.add_argument('--diff', default=None)
    ap.add_argument('--file', default=None, help='mutant spec file (default mutants/<prop>.json)')
    a, rest = ap.parse_known_args()
    rest = [x for x in rest if x != '--']
    results = []
    if a.diff:
        muts = [{'id': os.path.basename(os.path.dirname(a.diff)) or 'diff', 'diff': a.diff}]
    else:
        muts = json.load(open(a.file or os.path.join(sim.VERIF_DIR, 'mutants', f'{a.prop}.json')))
        if a.only:
            muts = [m for m in muts if m['id'] in a.only.split(',')]
    for m in muts:
        d = scratch_copy()
        try:
            if 'diff' in m:
                subprocess.run(['patch', '-p1', '-s', '-i', m['diff']], cwd=d, check=True)
            else:
                apply_spec(d, m)
            rc, out = run_check(d, a.prop, rest)
            lines = [ln for ln in out.splitlines() if ln.startswith(('VIOLATION', 'HARNESS', 'KNOWN')) or ln.startswith('  clause')]
            killed = rc == 1 and any(ln.startswith('VIOLATION') for ln in lines)
            results.append((m['id'], killed, rc))
            print(f"== mutant {m['id']}: {'KILLED' if killed else 'SURVIVED'} (exit {rc}) -- {m.get('note', '')}")
            for ln in lines[:6]:
                print('   ', ln[:300])
            if rc not in (0, 1):
                print(out[-1500:])
        finally:
            shutil.rmtree(d, ignore_errors=True)
    print('SUMMARY', a.prop, f'{sum(k for _, k, _ in results)}/{len(results)} killed', [i for i, k, _ in results if not k])
    return 0


if __name__ == '__main__':
    sys.exit(main())
