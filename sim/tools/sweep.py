"""python -m sim.tools.sweep <seed> [<seed> ...] [--props C01,C03] [--tier quick]: run the registered checks for several
VERIF_SEED values (evidence goes to a scratch directory, the committed evidence is not touched) and summarise."""
import json
import os
import subprocess
import sys
import tempfile
import time

import sim

ALL = ['C16', 'C07', 'C06', 'C14', 'C09', 'C03', 'C01', 'C13', 'C19', 'C08']


def main():
    args = sys.argv[1:]
    props = ALL
    tier = 'quick'
    if '--props' in args:
        i = args.index('--props')
        props = args[i + 1].split(',')
        args = args[:i] + args[i + 2 :]
    if '--tier' in args:
        i = args.index('--tier')
        tier = args[i + 1]
        args = args[:i] + args[i + 2 :]
    seeds = [int(a) for a in args]
    d = tempfile.mkdtemp(prefix='verif-sweep-', dir='/dev/shm')
    bad = []
    for seed in seeds:
        for p in props:
            env = dict(os.environ, VERIF_SEED=str(seed), VERIF_TIER=tier)
            t0 = time.time()
            r = subprocess.run([sys.executable, '-m', 'sim.check', p, '--evidence', os.path.join(d, f'{p}.json')], cwd=sim.VERIF_DIR, env=env, capture_output=True, text=True)
            lines = [ln for ln in r.stdout.splitlines() if ln.startswith(('VIOLATION', 'HARNESS', '  clause'))]
            print(f'seed {seed} {p}: exit {r.returncode} in {time.time() - t0:.0f}s', flush=True)
            for ln in lines:
                print('   ', ln[:400], flush=True)
            if r.returncode != 0:
                bad.append((seed, p, r.returncode))
                if r.returncode == 2:
                    print(r.stdout[-1500:], r.stderr[-800:], flush=True)
    print('SWEEP DONE bad:', bad, flush=True)


if __name__ == '__main__':
    main()
