"""python -m sim.tools.show <replay.json>: print scenario summary, attempts table and violations (debug aid)."""
import json
import sys

import sim

sim.bootstrap()


def main(path):
    from sim.check import load
    from sim import blocksim
    from sim.core.base import Result, EventLog

    body = json.load(open(path))
    sc = body['scenario']
    cfg = sc['config']
    print('expect', body['expect']['signature'], body['expect']['detail'])
    print('P', cfg['P'], 'ctrl', cfg['controller'], 'level', cfg['level'], 'step', cfg['step'], 'run', cfg['run'])
    print('sweeper', cfg['sweeper']['params'], 'cc', cfg['cc'], 'hooks', cfg['hooks'])
    print('faults', {k: v for k, v in sc['faults'].items()})
    tr = blocksim.run(sc, Result(), EventLog(), counting=True)
    print('exc', tr.exc)
    for a in tr.ctx.attempts:
        print({k: a.get(k) for k in ('block', 'slot', 't', 'dt', 'iter', 'niter_cb', 'restart_at_post', 'restart_final', 'accepted', 'restarts_in_a_row', 'e_est', 'dt_new')})
    mod = load(body['property'])
    res = mod.execute(sc)
    for v in res['violations']:
        print('V', v['clause'], v['site'], v['detail'])
    if tr.stats and len(sys.argv) > 2:
        for k, v in tr.stats.items():
            if k.type == sys.argv[2]:
                print(tuple(k), v if not hasattr(v, 'shape') else 'array')


if __name__ == '__main__':
    main(sys.argv[1])
