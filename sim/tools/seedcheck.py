"""python -m sim.tools.seedcheck <seed dir> <Cxx> [--tests <pytest paths...>] [-- check args]

Confirms a seeded change independently: (1) demo.py passes on a scratch copy of /repo, (2) fails with patch.diff applied,
(3) optionally: no stable_pass test under the given paths fails with the patch, (4) runs the property's check against the
patched copy and reports KILLED / SURVIVED.  The scratch copy lives on tmpfs and is removed afterwards."""
import json
import os
import shutil
import subprocess
import sys
import xml.etree.ElementTree as ET

from sim.tools.mutate import scratch_copy, run_check


def run_tests(d, paths):
    base = json.load(open('/root/.vp/BASELINE.json'))
    stable = set(base['stable_pass'])
    xml = os.path.join(d, 'r.xml')
    env = dict(os.environ, PYTHONPATH=d)
    subprocess.run(
        ['/venv/bin/python', '-m', 'pytest', '-q', '-p', 'no:cacheprovider', '--timeout=900', '--continue-on-collection-errors', '-n', '12', f'--junitxml={xml}', *paths],
        cwd=d, env=env, stdout=subprocess.DEVNULL, stderr=subprocess.DEVNULL,
    )
    bad, n = [], 0
    for tc in ET.parse(xml).getroot().iter('testcase'):
        tid = f"{tc.get('classname')}::{tc.get('name')}"
        n += 1
        if tid in stable and any(ch.tag in ('failure', 'error', 'skipped') for ch in tc):
            bad.append(tid)
    # a stable_pass test that fails in the loaded parallel run is re-run alone before it counts (xdist / shared-file flakiness)
    still = []
    for tid in bad[:10]:
        cls_, name = tid.split('::', 1)
        node = cls_.replace('.', '/') + '.py::' + name
        p = subprocess.run(['/venv/bin/python', '-m', 'pytest', '-q', '-p', 'no:cacheprovider', '--timeout=900', node], cwd=d, env=env, stdout=subprocess.DEVNULL, stderr=subprocess.DEVNULL)
        if p.returncode != 0:
            still.append(tid)
    return n, still + bad[10:]


def main():
    args = sys.argv[1:]
    seed, prop = args[0], args[1]
    rest = args[2:]
    tests = []
    if '--tests' in rest:
        i = rest.index('--tests')
        j = rest.index('--') if '--' in rest else len(rest)
        tests = rest[i + 1 : j]
        rest = rest[:i] + rest[j:]
    rest = [x for x in rest if x != '--']
    d = scratch_copy()
    out = {'seed': seed, 'property': prop}
    try:
        demo = os.path.join(seed, 'demo.py')
        p = subprocess.run(['/venv/bin/python', demo, d], capture_output=True, text=True, timeout=900, cwd=d)
        out['demo_clean_exit'] = p.returncode
        subprocess.run(['patch', '-p1', '-s', '-i', os.path.join(seed, 'patch.diff')], cwd=d, check=True)
        p = subprocess.run(['/venv/bin/python', demo, d], capture_output=True, text=True, timeout=900, cwd=d)
        out['demo_patched_exit'] = p.returncode
        out['demo_patched_tail'] = (p.stdout + p.stderr)[-300:]
        if tests:
            n, bad = run_tests(d, tests)
            out['tests_run'] = n
            out['stable_pass_failing_with_patch'] = bad[:10]
        rc, o = run_check(d, prop, rest)
        lines = [ln for ln in o.splitlines() if ln.startswith(('VIOLATION', 'HARNESS', 'KNOWN')) or ln.startswith('  clause')]
        out['check_exit'] = rc
        out['verdict'] = 'KILLED' if rc == 1 and any(ln.startswith('VIOLATION') for ln in lines) else 'SURVIVED'
        out['check_lines'] = [ln[:260] for ln in lines[:6]]
        if rc not in (0, 1):
            out['check_tail'] = o[-800:]
    finally:
        shutil.rmtree(d, ignore_errors=True)
    print(json.dumps(out, indent=1))


if __name__ == '__main__':
    main()
