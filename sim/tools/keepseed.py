"""python -m sim.tools.keepseed <seed dir> <Cxx> <name> --tests <paths> [-- check args]: confirm a sub-agent's seeded change
(seedcheck) and store it as /verif/seeded/<name>/ {patch.diff, demo.py, meta.json}."""
import json
import os
import shutil
import subprocess
import sys

import sim


def main():
    seed, prop, name = sys.argv[1:4]
    p = subprocess.run([sys.executable, '-m', 'sim.tools.seedcheck', seed, prop, *sys.argv[4:]], cwd=sim.VERIF_DIR, capture_output=True, text=True)
    txt = p.stdout[p.stdout.index('{'):]
    res = json.loads(txt)
    ok = res.get('demo_clean_exit') == 0 and res.get('demo_patched_exit') not in (0, None) and not res.get('stable_pass_failing_with_patch')
    print(json.dumps(res, indent=1))
    if not ok:
        print('NOT KEPT: confirmation failed')
        return 1
    dst = os.path.join(sim.VERIF_DIR, 'seeded', name)
    os.makedirs(dst, exist_ok=True)
    shutil.copy(os.path.join(seed, 'patch.diff'), dst)
    shutil.copy(os.path.join(seed, 'demo.py'), dst)
    meta = json.load(open(os.path.join(seed, 'meta.json')))
    meta['confirmed_by_me'] = {
        'demo_on_clean_copy_exit': res['demo_clean_exit'],
        'demo_with_patch_exit': res['demo_patched_exit'],
        'pinned_tests_run_with_patch': res.get('tests_run'),
        'stable_pass_tests_failing_with_patch': res.get('stable_pass_failing_with_patch'),
        'check_command': f'python -m sim.tools.seedcheck <seed> {prop} ' + ' '.join(sys.argv[4:]),
        'check_verdict': res['verdict'],
        'check_lines': res.get('check_lines'),
    }
    json.dump(meta, open(os.path.join(dst, 'meta.json'), 'w'), indent=1)
    print('KEPT', dst, res['verdict'])
    return 0


if __name__ == '__main__':
    sys.exit(main())
