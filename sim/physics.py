"""Real-physics workload for C01/C03 (and C13/C19): configurations of linear and IMEX-split problems, the shadow
re-evaluation of the collocation defect (C03) and the sequential dense reference model (C01)."""
import numpy as np

from sim.blocksim import resolve, conv_params

EPS = np.finfo(float).eps

QI_IMPL = ['IE', 'LU', 'MIN-SR-S', 'MIN-SR-NS', 'MIN', 'IEpar', 'TRAP', 'MIN-SR-FLEX', 'PIC']
QE_EXPL = ['EE', 'PIC']
NODE_TYPES = ['LEGENDRE', 'EQUID', 'CHEBY-1', 'CHEBY-2', 'CHEBY-3', 'CHEBY-4']


# ---------------------------------------------------------------------------------------------------------- workload
def gen_config(r, allow_faults=True, fixed_step=False, allow_mass=False):
    """One configuration of the space the property quantifies over (swarm style)."""
    kind = r.choice(['dahlquist', 'dahlquist', 'dahlquist_imex', 'heat', 'heat_forced', 'advection', 'mass' if allow_mass else 'dahlquist', 'twopart'])
    P = r.choice([1, 1, 2, 3, 4, 5, 8])
    nlevels = r.choice([1, 1, 2, 2, 3])
    M = r.randint(2, 5) if nlevels > 1 else r.randint(1, 5)
    multi = P > 1 and nlevels > 1
    quad = r.choice(['RADAU-RIGHT', 'LOBATTO']) if (multi or nlevels > 1) else r.choice(['RADAU-RIGHT', 'RADAU-RIGHT', 'LOBATTO', 'GAUSS', 'RADAU-LEFT'])
    if quad in ('LOBATTO', 'RADAU-LEFT') and M < 2:
        M = 2
    node_type = r.choice(NODE_TYPES) if M <= 4 else r.choice(['LEGENDRE', 'CHEBY-1', 'CHEBY-2'])
    nodes = [M]
    for _ in range(nlevels - 1):
        nodes.append(max(2 if quad == 'LOBATTO' else 1, nodes[-1] - r.choice([0, 1, 2])))
    sweeper = 'generic_implicit'
    sw_params = {'quad_type': quad, 'node_type': node_type, 'initial_guess': r.choice(['spread', 'spread', 'copy', 'zero', 'random'])}
    transfer = None
    dt_scale = 1.0
    if kind == 'mass':
        # harness-owned mass-matrix problem driving the real imex_1st_order_mass sweeper (single level, right node = end point)
        # (one level; or two levels with fewer nodes on the coarse one, the real base_transfer_mass and an identity space transfer)
        if allow_mass == 'multilevel' and r.random() < 0.4:
            nlevels = 2
            nodes = [max(nodes[0], 2), max(2 if quad == 'LOBATTO' else 1, max(nodes[0], 2) - r.choice([0, 1]))]
            P = 1
            transfer = {'class': 'IdentityTransferWithProject', 'params': {}, 'base_class': 'base_transfer_mass'}
        else:
            nlevels, nodes = 1, [nodes[0]]
        quad = 'RADAU-RIGHT' if quad not in ('RADAU-RIGHT', 'LOBATTO') else quad
        sw_params['quad_type'] = quad
        prob = {'class': 'MassDahlquist', 'params': {'n': r.randint(1, 4), 'seed': r.randrange(1000), 'stiffness': 10 ** r.uniform(-0.5, 1.0)}}
        sweeper = 'imex_1st_order_mass'
        sw_params['QI'] = r.choice(['IE', 'LU'])
        sw_params['QE'] = r.choice(QE_EXPL)
        rate = 8.0
    elif kind == 'twopart':
        # harness-owned linear problem with two implicit parts driving the real multi_implicit sweeper
        prob = {'class': 'TwoPartDahlquist', 'params': {'n': r.randint(1, 4), 'seed': r.randrange(1000), 'stiffness': 10 ** r.uniform(-0.5, 1.0), 'forcing': r.choice([0.0, 1.0])}}
        sweeper = 'multi_implicit'
        sw_params['Q1'] = r.choice(['IE', 'LU'])
        sw_params['Q2'] = r.choice(['IE', 'LU'])
        rate = 8.0
        if nlevels > 1:
            transfer = {'class': 'mesh_to_mesh_nocoarse', 'params': {}}
    elif kind == 'dahlquist':
        n = r.randint(1, 4)
        lam = [[-10 ** r.uniform(-1, 1.3), r.uniform(-3, 3)] for _ in range(n)]
        prob = {'class': 'testequation0d', 'params': {'lambdas': lam, 'u0': 1.0}}
        rate = max(abs(complex(a, b)) for a, b in lam)
        if r.random() < 0.2:
            sweeper = 'explicit'
            sw_params['QE'] = r.choice(QE_EXPL)
            dt_scale = 0.2
        else:
            sw_params['QI'] = r.choice(QI_IMPL)
            if sw_params['QI'] in ('PIC',):
                dt_scale = 0.2
        if nlevels > 1:
            transfer = {'class': 'mesh_to_mesh_nocoarse', 'params': {}}
    elif kind == 'dahlquist_imex':
        n = r.randint(1, 3)
        li = [[-10 ** r.uniform(-1, 1.3), 0.0] for _ in range(n)]
        le = [[-r.uniform(0, 0.5), r.uniform(-1.5, 1.5)] for _ in range(n)]
        prob = {'class': 'test_equation_IMEX', 'params': {'lambdas_implicit': li, 'lambdas_explicit': le, 'u0': 1.0}}
        sweeper = 'imex_1st_order'
        sw_params['QI'] = r.choice(['IE', 'LU', 'MIN-SR-S'])
        sw_params['QE'] = r.choice(QE_EXPL)
        rate = max(abs(complex(a, b)) for a, b in le) * 4 + 0.5
        if nlevels > 1:
            transfer = {'class': 'mesh_to_mesh_nocoarse', 'params': {}}
    else:
        periodic = kind == 'advection' or r.random() < 0.5
        nv = r.choice([16, 32]) if periodic else r.choice([15, 31])
        nvars = [nv]
        space_coarsen = nlevels > 1 and r.random() < 0.7
        for _ in range(nlevels - 1):
            nvars.append(((nvars[-1] // 2) if periodic else ((nvars[-1] + 1) // 2 - 1)) if space_coarsen and nvars[-1] >= 8 else nvars[-1])
        pp = {'nvars': nvars if nlevels > 1 else nv, 'freq': (r.choice([2, 4]) if periodic else r.choice([1, 2, 3])), 'bc': 'periodic' if periodic else 'dirichlet-zero'}
        if kind == 'advection':
            pp.update(c=r.uniform(0.2, 1.5), stencil_type='center', order=r.choice([2, 4]))
            prob = {'class': 'advectionNd', 'params': pp}
            rate = 2.0
            sw_params['QI'] = r.choice(['IE', 'LU'])
        else:
            pp.update(nu=10 ** r.uniform(-2, 0.5), order=r.choice([2, 4]))
            prob = {'class': 'heatNd_forced' if kind == 'heat_forced' else 'heatNd_unforced', 'params': pp}
            rate = 1.0
            if kind == 'heat_forced':
                sweeper = 'imex_1st_order'
                sw_params['QI'] = r.choice(['IE', 'LU'])
                sw_params['QE'] = 'EE'
            else:
                sw_params['QI'] = r.choice(['IE', 'LU', 'MIN-SR-S', 'MIN-SR-NS'])
        if nlevels > 1:
            if space_coarsen and len(set(nvars)) > 1:
                if True:
                    transfer = {'class': 'mesh_to_mesh', 'params': {'rorder': 2, 'iorder': r.choice([2, 4, 6, 8] if min(nvars) >= 15 else [2, 4] if min(nvars) >= 7 else [2]), 'periodic': periodic}}
            else:
                transfer = {'class': 'mesh_to_mesh_nocoarse', 'params': {}}
    dt = dt_scale * r.choice([0.5, 1.0, 2.0]) / rate / 4
    dt = float(2.0 ** round(np.log2(dt))) if fixed_step else dt
    nblocks = r.choice([1, 1, 2, 3])
    restol = 10 ** r.uniform(-12, -5)
    if r.random() < 0.12:
        restol = 10 ** r.uniform(-5, -1.5)  # loose: reached by the predictor alone or after one iteration
    maxiter = r.choice([50, 50, 30, 8, 3])
    sw_params['num_nodes'] = nodes if nlevels > 1 else nodes[0]
    if quad in ('GAUSS', 'RADAU-LEFT'):
        sw_params['do_coll_update'] = True
    elif r.random() < 0.15 and not multi:
        sw_params['do_coll_update'] = True
    nsw = r.choice([1, 1, 2, 3])
    cfg = {
        'P': P,
        'controller': {
            'mssdc_jac': r.random() < 0.5,
            'predict_type': None if nlevels == 1 else r.choice([None, 'fine_only', 'pfasst_burnin']),
            'all_to_done': r.random() < 0.15,
        },
        'problem': prob,
        'sweeper': {'class': sweeper, 'params': sw_params},
        'level': {
            'dt': dt,
            'restol': restol,
            'nsweeps': ([nsw] + [r.choice([1, 2]) for _ in range(nlevels - 2)] + [1]) if nlevels > 1 else nsw,
            'residual_type': r.choice(['full_abs', 'full_abs', 'last_abs', 'full_rel', 'last_rel']),
        },
        'step': {'maxiter': maxiter},
        'transfer': transfer,
        'cc': [],
        'hooks': [],
        'run': {'t0': r.choice([0.0, 0.0, 0.5]), 'Tend': None, 'u0': 'exact'},
    }
    cfg['run']['Tend'] = cfg['run']['t0'] + nblocks * P * dt * r.choice([1.0, 1.0, 0.8])
    if kind == 'mass':
        sw_params.pop('do_coll_update', None)
        cfg['level']['residual_type'] = 'full_abs'  # the mass sweeper always reports the maximum over the nodes
        cfg['controller']['predict_type'] = None
        cfg['run']['u0'] = 'exact'
    if cfg['level']['residual_type'].endswith('rel') and kind in ('heat', 'heat_forced', 'advection'):
        # the exact solution used as initial value may have decayed to exactly 0 at t0 > 0 (relative residual divides by |u0|)
        nbl = (cfg['run']['Tend'] - cfg['run']['t0'])
        cfg['run']['t0'], cfg['run']['Tend'] = 0.0, nbl
    if sw_params['initial_guess'] == 'zero' and cfg['level']['residual_type'].endswith('rel'):
        # a later step receives the all-zero end value of its predecessor at iteration 0 and the relative residual divides
        # by |u0| = 0 (ZeroDivisionError in Sweeper.compute_residual): outside the property, avoided, noted in DESIGN
        cfg['level']['residual_type'] = cfg['level']['residual_type'].replace('rel', 'abs')
    faults = {'soft': []}
    if allow_faults and r.random() < 0.45:
        for _ in range(r.randint(1, 2 * nblocks)):
            faults['soft'].append(
                {
                    'block': r.randrange(nblocks),
                    'slot': r.randrange(P),
                    'level': r.randrange(nlevels),
                    'iter': r.randint(1, min(maxiter, 6)),
                    # never between the computation of the residual and the decision taken on it (post_iteration): the
                    # fault itself would make the reported residual stale
                    'event': r.choice(['pre_sweep', 'post_sweep', 'pre_iteration']),
                    'node': r.randrange(8),
                    'kind': r.choice(['add', 'add', 'garbage']),
                    'rel': 10 ** r.uniform(-8, 2),
                    'seed': r.randrange(1 << 30),
                }
            )
    return {'engine': 'blocksim', 'config': cfg, 'plugins': ['MonFirst'], 'faults': faults, 'max_events': 400000, 'shadow': True, 'problem_kind': kind}


# ---------------------------------------------------------------------------------------------------------- shadow
class Shadow:
    """Independent re-evaluation: a problem instance built by the harness (pySDC's work counters stay untouched) and the
    collocation matrices taken from qmat directly (not from CollBase)."""

    def __init__(self, sc):
        cfg = sc['config']
        self.cfg = cfg
        self.pcls = resolve(cfg['problem']['class'])
        self.pparams = conv_params(cfg['problem'].get('params', {}))
        self.probs = {}
        self.colls = {}
        self.lin = {}

    def level_params(self, key, lvl):
        v = key
        if isinstance(v, list):
            return v[min(lvl, len(v) - 1)]
        return v

    def prob(self, lvl):
        if lvl not in self.probs:
            pp = {k: self.level_params(v, lvl) if isinstance(v, list) and k == 'nvars' else v for k, v in self.pparams.items()}
            self.probs[lvl] = self.pcls(**pp)
        return self.probs[lvl]

    def coll(self, lvl):
        if lvl not in self.colls:
            from qmat.qcoeff.collocation import Collocation

            sp = self.cfg['sweeper']['params']
            M = self.level_params(sp['num_nodes'], lvl)
            c = Collocation(nNodes=M, nodeType=sp.get('node_type', 'LEGENDRE'), quadType=sp.get('quad_type', 'RADAU-RIGHT'))
            self.colls[lvl] = (np.array(c.nodes), np.array(c.weights), np.array(c.Q))
        return self.colls[lvl]

    def F(self, lvl, u, t):
        """Full right-hand side as a flat array."""
        P = self.prob(lvl)
        uu = P.dtype_u(P.init)
        uu[:] = np.asarray(u).reshape(np.asarray(uu).shape)
        f = P.eval_f(uu, t)
        a = np.asarray(f)
        if a.shape != np.asarray(uu).shape:  # imex_mesh: (2, ...)
            a = a[0] + a[1]
        return np.array(a).reshape(-1)

    def residual(self, L, lvl, residual_type):
        """(value in the configured norm, full_abs value, rounding scale S) from the node values the level holds now."""
        nodes, weights, Q = self.coll(lvl)
        M = len(nodes)
        U = [np.array(L.u[m]).reshape(-1) for m in range(M + 1)]
        Fv = [self.F(lvl, U[m], L.time + L.dt * nodes[m - 1]) for m in range(1, M + 1)]
        norms, scales = [], []
        Pm = self.prob(lvl)
        mass = self.cfg['sweeper']['class'] == 'imex_1st_order_mass'
        for m in range(M):
            if mass and lvl == 0:
                # mass-matrix form (level 0): M (u0 - u_m) + dt * sum_j Q_mj F_j
                acc = np.asarray(Pm.M @ (U[0] - U[m + 1]))
                sc = np.abs(Pm.M) @ (np.abs(U[0]) + np.abs(U[m + 1]))
            elif mass:
                # coarser levels hold the initial value already multiplied with the mass matrix (base_transfer_mass restricts M*u0)
                acc = U[0] - np.asarray(Pm.M @ U[m + 1])
                sc = np.abs(U[0]) + np.abs(Pm.M) @ np.abs(U[m + 1])
            else:
                acc = U[0] - U[m + 1]
                sc = np.abs(U[0]) + np.abs(U[m + 1])
            for j in range(M):
                acc = acc + L.dt * Q[m, j] * Fv[j]
                sc = sc + abs(L.dt * Q[m, j]) * np.abs(Fv[j])
            if L.tau[m] is not None:
                tm = np.array(L.tau[m]).reshape(-1)
                acc = acc + tm
                sc = sc + np.abs(tm)
            norms.append(float(np.max(np.abs(acc))) if acc.size else 0.0)
            scales.append(float(np.max(sc)) if sc.size else 0.0)
        full = max(norms)
        u0n = float(np.max(np.abs(U[0]))) if U[0].size else 0.0
        val = {'full_abs': full, 'last_abs': norms[-1], 'full_rel': full / u0n if u0n else np.inf, 'last_rel': norms[-1] / u0n if u0n else np.inf}[residual_type]
        S = max(scales) * (M + 2)
        self.last_S_abs = S  # rounding scale of the absolute defect `full` (S below is relative for the *_rel residual types)
        if residual_type.endswith('rel'):
            S = S / u0n if u0n else np.inf
        return val, full, S

    # ---- sequential dense reference model (level 0)
    def linearisation(self, t_probe=0.0):
        if 0 not in self.lin:
            P = self.prob(0)
            n = int(np.prod(np.asarray(P.dtype_u(P.init)).shape))
            dtype = np.asarray(P.dtype_u(P.init)).dtype
            b0 = self.F(0, np.zeros(n, dtype=dtype), t_probe)
            A = np.zeros((n, n), dtype=complex if np.iscomplexobj(b0) else float)
            for i in range(n):
                e = np.zeros(n, dtype=dtype)
                e[i] = 1.0
                A[:, i] = self.F(0, e, t_probe) - b0
            self.lin[0] = (A, n, dtype)
        return self.lin[0]

    def reference_step(self, u0, t, dt, coll_update):
        """Solve the fine collocation problem for one step densely. Returns (uend_ref, kappa_end, kappa, |U|)."""
        A, n, dtype = self.linearisation(t)
        nodes, weights, Q = self.coll(0)
        M = len(nodes)
        b = [self.F(0, np.zeros(n, dtype=dtype), t + dt * nodes[m]) for m in range(M)]  # affine part (forcing)
        Big = np.eye(M * n, dtype=A.dtype) - dt * np.kron(Q, A)
        rhs = np.tile(np.asarray(u0).reshape(-1).astype(A.dtype), M)
        Bv = np.concatenate(b).astype(A.dtype)
        rhs = rhs + dt * (np.kron(Q, np.eye(n)) @ Bv)
        U = np.linalg.solve(Big, rhs)
        inv = np.linalg.inv(Big)
        kappa = float(np.max(np.sum(np.abs(inv), axis=1)))
        if not coll_update:
            uend = U[(M - 1) * n :]
            kend = float(np.max(np.sum(np.abs(inv[(M - 1) * n :, :]), axis=1)))
        else:
            Fm = [A @ U[m * n : (m + 1) * n] + b[m] for m in range(M)]
            uend = np.asarray(u0).reshape(-1).astype(A.dtype) + dt * sum(weights[m] * Fm[m] for m in range(M))
            W = dt * np.kron(weights.reshape(1, -1), A) @ inv
            kend = float(np.max(np.sum(np.abs(W), axis=1)))
        normA = float(np.max(np.sum(np.abs(A), axis=1))) if A.size else 0.0
        return uend, kend, kappa, (float(np.max(np.abs(U))) if U.size else 0.0), normA

    def reference_nodes(self, u0, t, dt):
        """Node values of the fine collocation solution of one step (M x n), solved densely."""
        A, n, dtype = self.linearisation(t)
        nodes, weights, Q = self.coll(0)
        M = len(nodes)
        b = [self.F(0, np.zeros(n, dtype=dtype), t + dt * nodes[m]) for m in range(M)]
        Big = np.eye(M * n, dtype=A.dtype) - dt * np.kron(Q, A)
        rhs = np.tile(np.asarray(u0).reshape(-1).astype(A.dtype), M) + dt * (np.kron(Q, np.eye(n)) @ np.concatenate(b).astype(A.dtype))
        return np.linalg.solve(Big, rhs).reshape(M, n)
