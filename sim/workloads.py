"""Scenario generators (workloads + fault scripts) shared by the blocksim checks.  Everything is drawn from the one
PRNG handed in; scenarios are plain JSON."""
import itertools

STUB_PROBLEM = {'class': 'testequation0d', 'params': {'lambdas': [[-1.0, 0.0]], 'u0': 1.0}}


def stub_config(P, nlevels, K, nsweeps_fine=1, predict=None, jac=True, all_to_done=False, dt=0.125, nblocks=1, t0=0.0, nodes=None, restol=0.5, initial_guess='spread'):
    nodes = nodes or [3, 2, 1][:nlevels]
    cfg = {
        'P': P,
        'controller': {'mssdc_jac': jac, 'predict_type': predict, 'all_to_done': all_to_done},
        'problem': dict(STUB_PROBLEM),
        'sweeper': {
            'class': 'generic_implicit',
            'params': {'num_nodes': nodes if nlevels > 1 else nodes[0], 'quad_type': 'RADAU-RIGHT', 'QI': 'IE', 'initial_guess': initial_guess},
        },
        'level': {'dt': dt, 'restol': restol, 'nsweeps': ([nsweeps_fine] + [1] * (nlevels - 1)) if nlevels > 1 else nsweeps_fine},
        'step': {'maxiter': K},
        'transfer': {'class': 'mesh_to_mesh_nocoarse', 'params': {}} if nlevels > 1 else None,
        'cc': [],
        'hooks': [],
        'run': {'t0': t0, 'Tend': t0 + nblocks * P * dt, 'u0': 'ones'},
    }
    return cfg


# ---------------------------------------------------------------------------------------------------------- C07
def c07_configs():
    out = []
    for nlevels in (1, 2, 3):
        for predict in ((None,) if nlevels == 1 else (None, 'fine_only', 'pfasst_burnin')):
            for jac in (True, False):
                for a2d in (False, True):
                    for nsw in (1, 2):
                        out.append({'nlevels': nlevels, 'predict': predict, 'jac': jac, 'all_to_done': a2d, 'nsweeps_fine': nsw})
    return out


C07_CONFIGS = c07_configs()


def c07_space(tier):
    """[(P, K, config index, number of patterns)] -- the enumerated sub-space and its size.
    quick: P<=3, K<=3, all 56 configurations.  thorough: P<=4, K<=4, all 56 configurations except the largest cell
    (P=4, K=4: 65536 patterns), which is enumerated for the 28 configurations with one fine sweep."""
    cells = []
    maxP, maxK = (3, 3) if tier == 'quick' else (4, 4)
    for P in range(1, maxP + 1):
        for K in range(1, maxK + 1):
            for ci, c in enumerate(C07_CONFIGS):
                if P == 4 and K == 4 and c['nsweeps_fine'] != 1:
                    continue
                cells.append((P, K, ci, 2 ** (P * K)))
    return cells


def c07_enumerated(cells, cum, index):
    import bisect

    j = bisect.bisect_right(cum, index) - 1
    P, K, ci, n = cells[j]
    pat = index - cum[j]
    return c07_scenario(P, K, C07_CONFIGS[ci], pat)


def c07_scenario(P, K, c, pat, force=(), nblocks=1, pats=None):
    cfg = stub_config(P, c['nlevels'], K, c['nsweeps_fine'], c['predict'], c['jac'], c['all_to_done'], nblocks=nblocks)
    table = []
    for b in range(nblocks):
        bits = pat if pats is None else pats[b]
        for s in range(P):
            for k in range(K):
                table.append([[b if nblocks > 1 else -1, s, k], (bits >> (s * K + k)) & 1])
    return {
        'engine': 'blocksim',
        'config': cfg,
        'plugins': ['MonFirst', 'InjVerdict'],
        'faults': {'verdicts': {'default': 0, 'table': table}, 'force': [list(f) for f in force]},
        'max_events': (K + 3 + len(force)) * (7 + 4 * c['nlevels']) * P * 8 * nblocks * 4 + 200,
    }


def c07_random(r, tier):
    c = r.choice(C07_CONFIGS)
    P = r.choice([1, 2, 3, 4, 4, 5, 6, 8])
    K = r.choice([1, 2, 3, 4, 5, 6, 8])
    nblocks = r.choice([1, 1, 2, 3])
    # swarm: per-run convergence probability, so that all-early, all-late and mixed patterns are all common
    pc = r.choice([0.1, 0.3, 0.5, 0.7, 0.9])
    pats = [sum((1 << i) for i in range(P * K) if r.random() < pc) for _ in range(nblocks)]
    force = []
    nforce = r.choice([0, 0, 1, 1, 2, 3])
    for _ in range(nforce):
        what = r.choice(['done', 'continue'])
        # force_continue at k == K lets a step exceed maxiter (legal, counted); bias some there
        k = K if (what == 'continue' and r.random() < 0.5) else r.randint(0, K)
        force.append([r.randrange(nblocks) if nblocks > 1 else -1, r.randrange(P), k, what])
    # two force flags on one (block, slot, k) would overwrite each other in the script: keep the first
    seen, uniq = set(), []
    for f in force:
        if tuple(f[:3]) not in seen:
            seen.add(tuple(f[:3]))
            uniq.append(f)
    sc = c07_scenario(P, K, c, 0, force=uniq, nblocks=nblocks, pats=pats)
    if P >= 2 and r.random() < 0.3:
        # the last block is only partly filled (fewer active steps than num_procs)
        sc['config']['run']['Tend'] -= r.randint(1, P - 1) * sc['config']['level']['dt']
        sc['partial_last_block'] = True
    return sc


# ---------------------------------------------------------------------------------------------------------- C06
def history_config(r, hooks=(), big=False):
    """Stub-physics run over a drawn time axis with injected restarts and step-size proposals (C06/C13/C14)."""
    kind = r.choice(['binary', 'binary', 'decimal', 'decimal', 'ragged', 'ragged', 'offset', 'offset', 'short', 'binary' if r.random() < 0.6 else 'many'])
    if kind in ('decimal',):
        dt = r.choice([0.1, 1e-3, 0.3, 0.7, 0.01, 0.05])
    elif kind == 'offset':
        dt = r.choice([0.1, 0.25, 1e-3, 2.0 ** -r.randint(1, 8)])
    else:
        dt = 2.0 ** -r.randint(1, 6) if r.random() < 0.6 else r.choice([0.1, 0.3, 1e-2])
    nsteps = r.randint(1, 40)
    if kind == 'many':
        nsteps = r.randint(100, 2000 if big else 400)
    t0 = 0.0
    if kind == 'offset' or r.random() < 0.2:
        t0 = r.choice([1.0, -3.5, 1e3, -1e6, 1e9, -1e9, r.uniform(-100, 100), 0.1, 1e-3])
    Tend = t0 + nsteps * dt
    if kind == 'ragged':
        Tend = t0 + (nsteps - 1 + r.choice([0.5, 0.25, 0.999, 1e-3, r.random()])) * dt
    if kind == 'short':
        Tend = t0 + r.choice([0.5, 1e-3, 0.999999, r.random()]) * dt
        nsteps = 1
    if not Tend > t0:
        Tend = t0 + dt
    P = r.randint(1, 8)
    nlevels = r.choice([1, 1, 2, 3])
    K = r.randint(1, 3)
    cfg = stub_config(
        P,
        nlevels,
        K,
        nsweeps_fine=r.choice([1, 1, 2]),
        predict=None if nlevels == 1 else r.choice([None, 'fine_only', 'pfasst_burnin']),
        jac=r.random() < 0.5,
        all_to_done=r.random() < 0.2,
        dt=dt,
        restol=-1.0,
    )
    cfg['run'] = {'t0': t0, 'Tend': Tend, 'u0': r.choice(['ones', 'exact' if abs(t0) < 5 else 'ones', r.randint(0, 999)])}
    if nlevels == 1 and r.random() < 0.08:
        # end point by collocation update (legal for single-level multi-step runs)
        cfg['sweeper']['params']['quad_type'] = r.choice(['GAUSS', 'RADAU-LEFT', 'RADAU-RIGHT'])
        cfg['sweeper']['params']['do_coll_update'] = True
    cfg['hooks'] = list(hooks)
    nblocks_est = nsteps // P + 2
    p_restart = 0.0 if kind == 'many' else r.choice([0.0, 0.0, 0.05, 0.15, 0.3])
    p_dt = 0.0 if kind == 'many' else r.choice([0.0, 0.0, 0.1, 0.3])
    maxb = min(nblocks_est * 3 + 6, 120)
    restarts, dtnew = [], []
    for b in range(maxb):
        for s in range(P):
            if r.random() < p_restart:
                restarts.append([b, s])
            if r.random() < p_dt:
                dtnew.append([b, s, r.choice([0.5, 0.8, 1.0, 1.25, 2.0, 0.8, 1.25, 2.0, 0.5, r.choice([0.1, 0.25, 4.0, 10.0])])])
    # the scripted factors must not drive the step size below the resolution of the time axis (t + dt == t is not a time step):
    # walking through the script in block order, a factor that would take the running product below 1024 ulp(max|t|) becomes 1.0
    import math

    floor_dt = 1024 * math.ulp(max(abs(t0), abs(Tend), 1.0))
    cur = dt
    for e in dtnew:
        if cur * e[2] < floor_dt:
            e[2] = 1.0
        else:
            cur *= e[2]
    cc = []
    if r.random() < 0.7:
        cc.append(
            [
                'BasicRestartingNonMPI',
                {
                    'max_restarts': r.choice([0, 1, 2, 3, 10]),
                    'crash_after_max_restarts': r.random() < 0.5,
                    'restart_from_first_step': r.random() < 0.3,
                },
            ]
        )
    if r.random() < 0.5:
        cc.append(['SpreadStepSizesBlockwiseNonMPI', {'overwrite_to_reach_Tend': r.random() < 0.5}])
    if dtnew and r.random() < 0.5:
        lim = {}
        if r.random() < 0.5:
            lim['dt_min'] = dt * r.choice([0.05, 0.3, 1.0])
        if r.random() < 0.5:
            lim['dt_max'] = dt * r.choice([1.0, 3.0, 20.0])
        if r.random() < 0.5:
            lim['dt_slope_max'] = r.choice([1.5, 2.0, 5.0])
        if r.random() < 0.5:
            lim['dt_slope_min'] = r.choice([0.2, 0.5])
        if lim:
            cc.append(['StepSizeLimiter', lim])
    cfg['cc'] = cc
    # continuation legs on the same controller (each leg continues from the returned value and the time reached)
    if kind != 'many' and r.random() < 0.3 and nsteps >= 2:
        fr = sorted(r.random() for _ in range(r.choice([1, 1, 2])))
        cfg['run']['legs'] = [t0 + f * (Tend - t0) for f in fr]
    plugins = ['MonFirst', 'Inj89']
    force = []
    if P > 1 and r.random() < 0.25:
        # forced stops (as the iteration estimator or the non-convergence path of adaptivity issue them)
        plugins.append('InjVerdict')
        for _ in range(r.randint(1, 4)):
            force.append([r.randrange(maxb), r.randrange(1, P), r.randint(0, K), 'done'])
        seenf, uniq = set(), []
        for f in force:
            if tuple(f[:3]) not in seenf:
                seenf.add(tuple(f[:3]))
                uniq.append(f)
        force = uniq
    verdicts = None
    if kind != 'many' and r.random() < 0.3:
        # residual-based stopping with a scripted convergence pattern: the steps of a block finish in different iterations
        # (a later step may be converged, or flagged for restart, while its predecessor still iterates)
        K = r.randint(2, 5)
        cfg['step']['maxiter'] = K
        cfg['level']['restol'] = 0.5
        pc = r.choice([0.2, 0.4, 0.6, 0.8])
        table = [[[b, s, k], 1 if r.random() < pc else 0] for b in range(min(maxb, 40)) for s in range(P) for k in range(K)]
        verdicts = {'default': 0, 'table': table}
        if 'InjVerdict' not in plugins:
            plugins.append('InjVerdict')
    faults = {'restarts': restarts, 'dtnew': dtnew, 'force': force}
    if verdicts is not None:
        faults['verdicts'] = verdicts
        faults['restart_any_iter'] = True
    return {
        'engine': 'blocksim',
        'config': cfg,
        'plugins': plugins,
        'faults': faults,
        'max_events': 150000,
        'axis_kind': kind,
    }


def shrink_history(sc):
    import copy

    cfg, f = sc['config'], sc['faults']
    if f.get('estimates', {}).get('excursions'):
        ex = f['estimates']['excursions']
        for i in range(len(ex) - 1, -1, -1):
            s2 = copy.deepcopy(sc)
            del s2['faults']['estimates']['excursions'][i]
            yield s2
    if cfg['run'].get('legs'):
        for i in range(len(cfg['run']['legs'])):
            s2 = copy.deepcopy(sc)
            del s2['config']['run']['legs'][i]
            yield s2
    for key in ('restarts', 'dtnew', 'soft', 'force'):
        lst = f.get(key, [])
        if len(lst) > 4:
            for half in (lst[: len(lst) // 2], lst[len(lst) // 2 :]):
                s2 = copy.deepcopy(sc)
                s2['faults'][key] = half
                yield s2
        for i in range(len(lst) - 1, -1, -1):
            s2 = copy.deepcopy(sc)
            del s2['faults'][key][i]
            yield s2
    for i in range(len(cfg.get('cc', [])) - 1, -1, -1):
        s2 = copy.deepcopy(sc)
        del s2['config']['cc'][i]
        yield s2
    for i in range(len(cfg.get('hooks', [])) - 1, -1, -1):
        s2 = copy.deepcopy(sc)
        del s2['config']['hooks'][i]
        yield s2
    run, dt, P = cfg['run'], cfg['level']['dt'], cfg['P']
    span = run['Tend'] - run['t0']
    if span > 2 * dt:
        s2 = copy.deepcopy(sc)
        s2['config']['run']['Tend'] = run['t0'] + max(dt, (span // (2 * dt)) * dt)
        yield s2
        s2 = copy.deepcopy(sc)
        s2['config']['run']['Tend'] = run['Tend'] - dt
        yield s2
    if run['t0'] != 0.0:
        s2 = copy.deepcopy(sc)
        s2['config']['run'] = {'t0': 0.0, 'Tend': span, 'u0': run['u0']}
        if run.get('legs'):
            s2['config']['run']['legs'] = [x - run['t0'] for x in run['legs']]
        yield s2
    if P > 1:
        for newP in (1, P - 1):
            s2 = copy.deepcopy(sc)
            s2['config']['P'] = newP
            for key in ('restarts', 'dtnew'):
                s2['faults'][key] = [e for e in f.get(key, []) if e[1] < newP]
            if f.get('estimates'):
                s2['faults']['estimates']['excursions'] = [e for e in f['estimates'].get('excursions', []) if e[1] < newP]
            s2['faults']['soft'] = [e for e in f.get('soft', []) if e['slot'] < newP]
            if 'verdicts' in f:
                s2['faults']['verdicts'] = {'default': f['verdicts'].get('default'), 'table': [e for e in f['verdicts']['table'] if e[0][1] < newP]}
            s2['faults']['force'] = [e for e in f.get('force', []) if e[1] < newP]
            yield s2
    nn = cfg['sweeper']['params'].get('num_nodes')
    if isinstance(nn, list):
        s2 = copy.deepcopy(sc)
        c = s2['config']
        if len(nn) == 2:
            c['sweeper']['params']['num_nodes'] = nn[0]
            c['level']['nsweeps'] = cfg['level']['nsweeps'][0] if isinstance(cfg['level'].get('nsweeps'), list) else cfg['level'].get('nsweeps', 1)
            c['transfer'] = None
            c['controller']['predict_type'] = None
        else:
            c['sweeper']['params']['num_nodes'] = nn[:2]
            if isinstance(cfg['level'].get('nsweeps'), list):
                c['level']['nsweeps'] = cfg['level']['nsweeps'][:2]
        yield s2
    for key, val in (('predict_type', None), ('all_to_done', False), ('mssdc_jac', True)):
        if cfg['controller'].get(key) != val:
            s2 = copy.deepcopy(sc)
            s2['config']['controller'][key] = val
            yield s2
    if cfg['step']['maxiter'] > 1:
        s2 = copy.deepcopy(sc)
        s2['config']['step']['maxiter'] -= 1
        yield s2
    if run['u0'] != 'ones':
        s2 = copy.deepcopy(sc)
        s2['config']['run']['u0'] = 'ones'
        yield s2


# ---------------------------------------------------------------------------------------------------------- C09 part A
def c09_injected(r, hooks=()):
    """Real Adaptivity + limiters + BasicRestarting + SpreadStepSizes on stub physics; error estimates from a script with
    a physical background c*dt^(order+1) (so that a smaller step really has a smaller estimate) and injected excursions."""
    P = r.randint(1, 4)
    K = r.randint(1, 4)
    dt0 = r.choice([0.1, 0.125, 0.05, 0.2, 0.3])
    nsteps = r.randint(2, 24)
    t0 = r.choice([0.0, 0.0, 0.0, 1.0, -2.5])
    nlevels = r.choice([1, 1, 1, 2])
    cfg = stub_config(P, nlevels, K, predict=None if nlevels == 1 else r.choice([None, 'fine_only']), jac=False, dt=dt0, restol=-1.0)
    cfg['run'] = {'t0': t0, 'Tend': t0 + nsteps * dt0 * r.choice([1.0, 1.0, 0.93, 1.37]), 'u0': 'ones'}
    cfg['hooks'] = list(hooks)
    c = 10 ** r.uniform(-1, 1)
    e_ref = c * dt0 ** (K + 1)
    e_tol = e_ref * r.choice([0.5, 1.0, 2.0, 5.0])
    ad = {'e_tol': e_tol, 'beta': r.choice([0.5, 0.8, 0.9, 0.95, 0.99])}
    if r.random() < 0.4:
        ad['dt_min'] = dt0 * r.choice([0.01, 0.1, 0.5])
    if r.random() < 0.3:
        ad['dt_max'] = dt0 * r.choice([1.0, 2.0, 10.0])
    if r.random() < 0.4:
        ad['dt_slope_max'] = r.choice([1.2, 2.0, 4.0])
    if r.random() < 0.4:
        ad['dt_slope_min'] = r.choice([0.1, 0.3, 0.6])
    if r.random() < 0.3:
        ad['dt_rel_min_slope'] = r.choice([0.05, 0.1, 0.3])
    max_restarts = r.choice([0, 1, 1, 2, 3, 4])
    br = {
        'max_restarts': max_restarts,
        'crash_after_max_restarts': r.random() < 0.5,
        'restart_from_first_step': r.random() < 0.35,
    }
    cc = [['Adaptivity', ad], ['BasicRestartingNonMPI', br]]
    if r.random() < 0.5:
        cc.append(['SpreadStepSizesBlockwiseNonMPI', {'overwrite_to_reach_Tend': r.random() < 0.5}])
    cfg['cc'] = cc
    maxb = 4 * (nsteps // P + 2) + 10
    p_exc = r.choice([0.0, 0.03, 0.08, 0.2])
    exc = []
    for b in range(maxb):
        for s in range(P):
            if r.random() < p_exc:
                exc.append([b, s, r.choice([3.0, 10.0, 50.0, 1e3, 'tie'])])
    if r.random() < 0.3:
        # a run of consecutive failures of the same step, possibly longer than the retry budget
        b0, s0 = r.randrange(max(maxb // 4, 1)), r.randrange(P)
        for j in range(r.randint(1, max_restarts + 2)):
            exc.append([b0 + j, s0 if j == 0 or br['restart_from_first_step'] else 0, r.choice([50.0, 1e3])])
    seen, uniq = set(), []
    for e in exc:
        if (e[0], e[1]) not in seen:
            seen.add((e[0], e[1]))
            uniq.append(e)
    restarts = []
    if r.random() < 0.25:
        for b in range(maxb):
            for s in range(P):
                if r.random() < 0.04:
                    restarts.append([b, s])
    return {
        'engine': 'blocksim',
        'config': cfg,
        'plugins': ['MonFirst', 'InjEstimate', 'MonRaw', 'Inj89', 'MonLim'],
        'faults': {
            'estimates': {'seed': r.randrange(1 << 30), 'c': c, 'order': K, 'noise': [0.1, 3.0] if r.random() < 0.7 else [0.5, 1.5], 'e_tol': e_tol, 'excursions': uniq},
            'restarts': restarts,
        },
        'max_events': 150000,
        'max_blocks': 400,
        'axis_kind': 'adaptive',
    }


def c09_real(r):
    """Part B: real adaptive runs, monitors only (no script)."""
    which = r.choice(['vdp_sdc', 'vdp_sdc', 'lorenz_sdc', 'dahlquist_sdc', 'vdp_rk', 'dahlquist_rk', 'vdp_conv', 'dahlquist_conv', 'lorenz_conv'])
    P = r.choice([1, 1, 2, 3])
    K = r.randint(2, 4)
    e_tol = 10 ** r.uniform(-7, -3)
    ad = {'e_tol': e_tol, 'beta': r.choice([0.8, 0.9, 0.95])}
    if r.random() < 0.4:
        ad['dt_slope_max'] = r.choice([2.0, 4.0])
    if r.random() < 0.3:
        ad['dt_min'] = 1e-6
    if r.random() < 0.3:
        ad['dt_rel_min_slope'] = r.choice([0.1, 0.25])
    br = {'max_restarts': r.choice([2, 5, 10]), 'crash_after_max_restarts': r.random() < 0.5, 'restart_from_first_step': r.random() < 0.3}
    if which.endswith('sdc') and r.random() < 0.35:
        # keep iterating instead of restarting when the contraction-factor estimate predicts convergence within a few sweeps
        ad['avoid_restarts'] = True
    if which.startswith('vdp'):
        prob = {'class': 'vanderpol', 'params': {'mu': r.choice([0.5, 2.0, 5.0, 10.0]), 'newton_tol': 1e-10, 'newton_maxiter': 50, 'u0': [2.0, 0.0]}}
        dt, T = r.choice([0.05, 0.1, 0.2]), r.choice([0.5, 1.0, 2.0])
    elif which.startswith('lorenz'):
        prob = {'class': 'LorenzAttractor', 'params': {'newton_tol': 1e-10, 'newton_maxiter': 50}}
        dt, T = r.choice([0.01, 0.02, 0.05]), r.choice([0.2, 0.5])
    else:
        prob = {'class': 'testequation0d', 'params': {'lambdas': [[-r.uniform(0.5, 50.0), r.uniform(-5, 5)], [-r.uniform(0.1, 2.0), 0.0]], 'u0': 1.0}}
        dt, T = r.choice([0.05, 0.1, 0.25]), r.choice([1.0, 2.0])
    level = {'dt': dt, 'restol': -1.0}
    if which.endswith('conv'):
        # step-size control for converged collocation problems: polynomial (interpolation) or extrapolation estimate
        adname = r.choice(['AdaptivityPolynomialError', 'AdaptivityPolynomialError', 'AdaptivityExtrapolationWithinQ'])
        sweeper = {'class': 'generic_implicit', 'params': {'num_nodes': r.choice([3, 4]) if adname != 'AdaptivityPolynomialError' else r.choice([2, 3, 4]), 'quad_type': 'RADAU-RIGHT', 'QI': r.choice(['LU', 'IE', 'MIN-SR-S'])}}
        level = {'dt': dt, 'restol': 10 ** r.uniform(-11, -8)}
        K = r.choice([12, 20, 40])
        P = 1
        ad.pop('dt_rel_min_slope', None)
        if adname == 'AdaptivityExtrapolationWithinQ' and r.random() < 0.5:
            ad['high_Taylor_order'] = True
        if r.random() < 0.3:
            ad['interpolate_between_restarts'] = False
    elif which.endswith('rk'):
        sweeper = {'class': r.choice(['Cash_Karp', 'ESDIRK43', 'Heun_Euler']) if not which.startswith('lorenz') else 'ESDIRK43', 'params': {}}
        adname = 'AdaptivityRK'
        K = 1
        P = 1
    else:
        sweeper = {'class': 'generic_implicit', 'params': {'num_nodes': r.choice([2, 3]), 'quad_type': 'RADAU-RIGHT', 'QI': r.choice(['IE', 'LU'])}}
        adname = 'Adaptivity'
    cfg = {
        'P': P,
        'controller': {'mssdc_jac': False, 'predict_type': None, 'all_to_done': False},
        'problem': prob,
        'sweeper': sweeper,
        'level': level,
        'step': {'maxiter': K},
        'transfer': None,
        'cc': [[adname, ad], ['BasicRestartingNonMPI', br]],
        'hooks': [],
        'run': {'t0': 0.0, 'Tend': T, 'u0': 'exact'},
    }
    return {'engine': 'blocksim', 'config': cfg, 'plugins': ['MonFirst', 'MonRaw', 'MonLim'], 'faults': {}, 'max_events': 200000, 'max_blocks': 600, 'axis_kind': 'adaptive_real'}


def dae_config(r, hooks=()):
    """Semi-explicit DAE with the DAE project's sweepers (SemiImplicitDAE updates its nodes in place).  One step per
    block: the controller's receive re-evaluates f with the ODE signature eval_f(u, t), which DAE problems do not have."""
    P = 1
    nsteps = r.randint(2, 5)
    dt = r.choice([0.05, 0.1])
    cfg = {
        'P': P,
        'controller': {'mssdc_jac': r.random() < 0.5, 'predict_type': None, 'all_to_done': False},
        'problem': {'class': 'SimpleDAE', 'params': {'newton_tol': 1e-10}},
        'sweeper': {'class': r.choice(['SemiImplicitDAE', 'SemiImplicitDAE', 'FullyImplicitDAE']), 'params': {'num_nodes': r.choice([2, 3]), 'quad_type': 'RADAU-RIGHT', 'QI': r.choice(['LU', 'IE'])}},
        'level': {'dt': dt, 'restol': -1.0},
        'step': {'maxiter': r.randint(2, 4)},
        'transfer': None,
        'cc': [],
        'hooks': list(hooks),
        'run': {'t0': 0.0, 'Tend': nsteps * dt, 'u0': 'exact'},
    }
    return {'engine': 'blocksim', 'config': cfg, 'plugins': ['MonFirst'], 'faults': {}, 'max_events': 100000, 'axis_kind': 'dae'}


def paradiag_config(r):
    """Fixed-step ParaDiag runs (serial emulation), Dahlquist / IMEX Dahlquist, full and partial last blocks."""
    P = r.choice([1, 2, 3, 4, 4, 8])
    dt = r.choice([0.125, 0.1, 0.05, 0.25])
    nblocks = r.randint(1, 4)
    t0 = r.choice([0.0, 0.0, 1.0, -2.0])
    imex = r.random() < 0.4
    n = r.randint(1, 3)
    cfg = stub_config(P, 1, 40, dt=dt, restol=10 ** r.uniform(-11, -8))
    cfg['controller_class'] = 'ParaDiag'
    cfg['controller'] = {'mssdc_jac': False, 'alpha': 10 ** r.uniform(-8, -2)}
    cfg['sweeper'] = {'class': 'QDiagonalizationIMEX' if imex else 'QDiagonalization', 'params': {'num_nodes': r.randint(1, 4), 'quad_type': 'RADAU-RIGHT', 'initial_guess': 'spread'}}
    if imex:
        cfg['problem'] = {'class': 'test_equation_IMEX', 'params': {'lambdas_implicit': [[-r.uniform(0.2, 4.0), 0.0] for _ in range(n)], 'lambdas_explicit': [[-r.uniform(0, 0.3), r.uniform(-0.5, 0.5)] for _ in range(n)], 'u0': 1.0}}
    else:
        cfg['problem'] = {'class': 'testequation0d', 'params': {'lambdas': [[-r.uniform(0.2, 4.0), r.uniform(-1, 1)] for _ in range(n)], 'u0': 1.0}}
    partial = r.random() < 0.2 and P > 1
    steps = nblocks * P - (r.randint(1, P - 1) if partial else 0)
    cfg['run'] = {'t0': t0, 'Tend': t0 + steps * dt, 'u0': r.choice(['ones', 'exact'])}
    return {'engine': 'blocksim', 'config': cfg, 'plugins': ['MonFirst'], 'faults': {}, 'max_events': 200000, 'axis_kind': 'paradiag'}
