"""Engine `blocksim`: the real controller_nonMPI under injected histories.

Nothing of pySDC is stubbed.  What is *added* through pySDC's own plug-in seams:
  * injector convergence controllers (control orders -60, 89, 190: unused by every shipped controller) that overwrite
    residual verdicts, force flags, error estimates, step-size proposals and restart requests from a script,
  * monitor convergence controllers (orders -49, 97, -1000, 1000) that only read,
  * an observer hook that records every callback, and a soft-fault hook that perturbs iterates,
  * wrappers on the controller *instance* for pfasst / restart_block / send_full / recv_full (observation only).
The script addresses positions by (block, slot[, iteration]); `block` counts calls of restart_block.
"""
import logging
import random
import warnings

import numpy as np

from sim.core.base import EventLog, Result, bdigest, HarnessError

HOOK_NAMES = [
    'pre_run',
    'post_run',
    'pre_step',
    'post_step',
    'pre_predict',
    'post_predict',
    'pre_iteration',
    'post_iteration',
    'pre_sweep',
    'post_sweep',
    'pre_comm',
    'post_comm',
]


# ------------------------------------------------------------------------------------------------ registry
def registry():
    """Name -> class, resolved at run time from the repository under test."""
    from pySDC.implementations.problem_classes.TestEquation_0D import testequation0d, test_equation_IMEX
    from pySDC.implementations.problem_classes.HeatEquation_ND_FD import heatNd_unforced, heatNd_forced
    from pySDC.implementations.problem_classes.AdvectionEquation_ND_FD import advectionNd
    from pySDC.implementations.problem_classes.Van_der_Pol_implicit import vanderpol
    from pySDC.implementations.problem_classes.Lorenz import LorenzAttractor
    from pySDC.implementations.sweeper_classes.generic_implicit import generic_implicit
    from pySDC.implementations.sweeper_classes.imex_1st_order import imex_1st_order
    from pySDC.implementations.sweeper_classes.explicit import explicit
    from pySDC.implementations.sweeper_classes.multi_implicit import multi_implicit
    from pySDC.implementations.sweeper_classes import Runge_Kutta as RK
    from pySDC.implementations.sweeper_classes.ParaDiagSweepers import QDiagonalization, QDiagonalizationIMEX
    from pySDC.implementations.transfer_classes.TransferMesh import mesh_to_mesh
    from pySDC.implementations.transfer_classes.TransferMesh_FFT import mesh_to_mesh_fft
    from pySDC.implementations.transfer_classes.TransferMesh_NoCoarse import mesh_to_mesh as mesh_to_mesh_nocoarse
    try:
        from pySDC.implementations.sweeper_classes.generic_implicit_MPI import generic_implicit_MPI
        from pySDC.implementations.sweeper_classes.imex_1st_order_MPI import imex_1st_order_MPI
        from pySDC.implementations.transfer_classes.BaseTransferMPI import base_transfer_MPI
        from pySDC.implementations.convergence_controller_classes.basic_restarting import BasicRestartingMPI
        from pySDC.implementations.convergence_controller_classes.spread_step_sizes import SpreadStepSizesBlockwiseMPI
    except ImportError:  # no (simulated) mpi4py on the path: serial engines only
        pass
    from pySDC.implementations.convergence_controller_classes.adaptivity import (
        Adaptivity,
        AdaptivityRK,
        AdaptivityPolynomialError,
        AdaptivityExtrapolationWithinQ,
    )
    from pySDC.implementations.convergence_controller_classes.basic_restarting import BasicRestartingNonMPI
    from pySDC.implementations.convergence_controller_classes.step_size_limiter import StepSizeLimiter, StepSizeSlopeLimiter
    from pySDC.implementations.convergence_controller_classes.spread_step_sizes import SpreadStepSizesBlockwiseNonMPI
    from pySDC.implementations.convergence_controller_classes.estimate_embedded_error import EstimateEmbeddedError
    from pySDC.implementations.convergence_controller_classes.hotrod import HotRod
    from pySDC.implementations.convergence_controller_classes.estimate_extrapolation_error import EstimateExtrapolationErrorNonMPI
    from pySDC.implementations.hooks.log_solution import LogSolution, LogSolutionAfterIteration
    from pySDC.implementations.hooks.log_work import LogWork, LogSDCIterations
    from pySDC.implementations.hooks.log_restarts import LogRestarts
    from pySDC.implementations.hooks.log_step_size import LogStepSize
    from pySDC.implementations.hooks.log_embedded_error_estimate import LogEmbeddedErrorEstimate, LogEmbeddedErrorEstimatePostIter
    from pySDC.implementations.hooks.log_errors import (
        LogGlobalErrorPostStep,
        LogGlobalErrorPostIter,
        LogGlobalErrorPostRun,
        LogLocalErrorPostStep,
        LogLocalErrorPostIter,
    )

    from pySDC.projects.DAE.problems.simpleDAE import SimpleDAE
    from pySDC.implementations.sweeper_classes.imex_1st_order_mass import imex_1st_order_mass
    from sim.massproblem import MassDahlquist, TwoPartDahlquist, IdentityTransferWithProject
    from pySDC.implementations.transfer_classes.BaseTransfer_mass import base_transfer_mass
    from pySDC.projects.DAE.problems.discontinuousTestDAE import DiscontinuousTestDAE
    from pySDC.projects.DAE.sweepers.fullyImplicitDAE import FullyImplicitDAE
    from pySDC.projects.DAE.sweepers.semiImplicitDAE import SemiImplicitDAE

    reg = dict(locals())
    for name in ('ESDIRK43', 'Cash_Karp', 'Heun_Euler', 'DIRK43', 'ESDIRK53', 'ARK548L2SA', 'ARK54', 'ARK3', 'ARK32'):
        for cand in (name, name.replace('L2SA', 'L2SAESDIRK')):
            if hasattr(RK, cand):
                reg[name] = getattr(RK, cand)
    return reg


_REG = None


def resolve(name):
    global _REG
    if _REG is None:
        _REG = registry()
    if name not in _REG:
        raise HarnessError(f'class name {name!r} does not resolve in the registry')
    return _REG[name]


# ------------------------------------------------------------------------------------------------ context
class Ctx:
    """Everything the plug-ins share during one run."""

    def __init__(self, sc, res, log):
        self.sc, self.res, self.log = sc, res, log
        self.faults = sc.get('faults', {})
        self.block = -1
        self.seq = 0
        self.events = []  # (seq, name, block, slot, level, time, iter, sweep, stage, dt)
        self.attempts = []  # one dict per pre_step
        self.cur = {}  # slot -> attempt dict of the running block
        self.blocks = []  # one dict per block
        self.comm = []  # send/recv records
        self.cc = []  # monitor records
        self.problems = []  # harness-side consistency problems (become violations of the checked property)
        self.exact_probes = []  # (block, slot, iter) at which the fine level was put onto the collocation solution
        self.ctrl = None
        self.max_events = sc.get('max_events', 400000)
        self.verdicts = {tuple(k): v for k, v in self.faults.get('verdicts', {}).get('table', [])}
        self.verdict_default = self.faults.get('verdicts', {}).get('default', None)
        self.force = {(b, s, k): what for b, s, k, what in self.faults.get('force', [])}
        self.restarts = {(b, s) for b, s in self.faults.get('restarts', [])}
        self.dtnew = {(b, s): f for b, s, f in self.faults.get('dtnew', [])}
        est = self.faults.get('estimates')
        self.est = est
        self.exc = {(b, s): f for b, s, f in (est or {}).get('excursions', [])}
        self.soft = {}
        for f in self.faults.get('soft', []):
            self.soft.setdefault((f['block'], f['slot'], f['event'], f['iter']), []).append(f)
        self.lockstep_bad = None
        self.caller_u0 = None
        self.shadow = None
        self.shadow_recs = []
        self.work = {}  # id(problem) -> counts
        if sc.get('spy_stats'):
            self.stat_writes = []

    def tick(self):
        self.seq += 1
        if self.seq > self.max_events:
            raise StepCapExceeded(f'more than {self.max_events} hook callbacks')


class StepCapExceeded(Exception):
    pass


# ------------------------------------------------------------------------------------------------ plug-ins
def make_observer(ctx):
    from pySDC.core.hooks import Hooks

    def mk(name):
        comm = name in ('pre_comm', 'post_comm')

        def cb(self, step, level_number, *a, **k):
            getattr(Hooks, name)(self, step, level_number, *a, **k)
            if step is None:
                return
            ctx.tick()
            L = step.levels[level_number]
            st = step.status
            ctx.events.append((ctx.seq, name, ctx.block, st.slot, level_number, L.time, st.iter, L.status.sweep, st.stage, L.dt))
            if not comm:
                ctx.log.add('cb', ctx.block, st.slot, name, level_number, st.iter, L.status.sweep, st.stage)
            h = HANDLERS.get(name)
            if h:
                h(ctx, step, level_number)
            fl = ctx.soft.get((ctx.block, st.slot, name, st.iter))
            if fl:
                apply_soft(ctx, step, fl)

        cb.__name__ = name
        return cb

    return type('Observer', (Hooks,), {n: mk(n) for n in HOOK_NAMES})


def on_pre_step(ctx, S, ln):
    L = S.levels[0]
    a = {
        'block': ctx.block,
        'slot': S.status.slot,
        't': L.time,
        'dt': L.dt,
        'u0_pre': np.array(L.u[0]),
        'u0_aliases_caller': ctx.caller_u0 is not None and bool(np.shares_memory(np.asarray(L.u[0]), np.asarray(ctx.caller_u0))),
        'seq_pre': ctx.seq,
        'post': False,
        'niter_cb': 0,
        'restarts_in_a_row': S.status.get('restarts_in_a_row'),
        'work_pre': [dict(ctx.work.get(id(l.prob), {})) for l in S.levels],
        'pysdc_work_pre': [{k: v.niter for k, v in l.prob.work_counters.items()} for l in S.levels],
    }
    ctx.attempts.append(a)
    ctx.cur[S.status.slot] = a
    ctx.log.add('val', ctx.block, S.status.slot, 'pre_step', L.time, L.dt, bdigest(L.u[0]))


def on_pre_iteration(ctx, S, ln):
    a = ctx.cur.get(S.status.slot)
    if a is not None:
        a['niter_cb'] += 1


def state_digest(S):
    out = []
    for L in S.levels:
        out.append([bdigest(x) for x in L.u] + [bdigest(x) for x in L.f] + [bdigest(L.uend)])
    return out


def on_post_step(ctx, S, ln):
    L = S.levels[0]
    a = ctx.cur.get(S.status.slot)
    if a is None:
        ctx.problems.append(('post_step_without_pre_step', S.status.slot))
        return
    if a['post']:
        ctx.problems.append(('two_post_steps', S.status.slot))
    a.update(
        post=True,
        seq_post=ctx.seq,
        t_post=L.time,
        dt_post=L.dt,
        u0_post=np.array(L.u[0]),
        uend=None if L.uend is None else np.array(L.uend),
        uend_obj=L.uend,
        iter=S.status.iter,
        residual=L.status.residual,
        restart_at_post=bool(S.status.get('restart')),
        digest_post=state_digest(S),
        e_est=L.status.get('error_embedded_estimate'),
        e_extrap=L.status.get('error_extrapolation_estimate'),
        dt_new=L.status.dt_new,
        work_post=[dict(ctx.work.get(id(l.prob), {})) for l in S.levels],
        pysdc_work_post=[{k: v.niter for k, v in l.prob.work_counters.items()} for l in S.levels],
        sweep=L.status.sweep,
    )
    ctx.log.add('val', ctx.block, S.status.slot, 'post_step', L.time, L.dt, S.status.iter, bdigest(L.u[0]), bdigest(L.uend), L.status.residual)


def shadow_check(name):
    def h(ctx, S, ln):
        if ctx.shadow is None or (ln != 0 and name != 'post_sweep'):
            return
        L = S.levels[ln]
        if any(u is None for u in L.u) or L.status.residual is None:
            return
        val, full, scale = ctx.shadow.residual(L, ln, L.params.residual_type)
        own_inc = None
        if name == 'post_iteration' and L.params.get('e_tol'):
            # what the increment-based stopping criterion is about to compute: |u_M of this iteration - u_M before it|
            uo = getattr(L, 'uold', None)
            if uo is not None and uo[-1] is not None and L.u[-1] is not None:
                own_inc = float(np.max(np.abs(np.asarray(uo[-1]) - np.asarray(L.u[-1])))) if np.asarray(L.u[-1]).size else 0.0
        ctx.shadow_recs.append(
            {
                'own_inc': own_inc,
                'S_abs': getattr(ctx.shadow, 'last_S_abs', None),
                'at': name,
                'block': ctx.block,
                'slot': S.status.slot,
                'level': ln,
                'iter': S.status.iter,
                'reported': float(L.status.residual),
                'shadow': val,
                'full': full,
                'S': scale,
                'sweep': L.status.sweep,
                'done': bool(S.status.done),
                'force_done': bool(S.status.force_done),
                'seq': ctx.seq,
                'time': L.time,
            }
        )

    return h


def on_post_step_shadow(ctx, S, ln):
    on_post_step(ctx, S, ln)
    shadow_check('post_step')(ctx, S, ln)


HANDLERS = {
    'pre_step': on_pre_step,
    'post_step': on_post_step_shadow,
    'pre_iteration': on_pre_iteration,
    'post_iteration': shadow_check('post_iteration'),
    'post_sweep': shadow_check('post_sweep'),
}


def apply_soft(ctx, S, faults):
    for f in faults:
        if f['kind'] == 'exact':
            # fixed-point probe: the fine level is put onto the collocation solution of the step (for the initial value it holds)
            if ctx.shadow is None or S.status.slot != 0:
                continue
            L = S.levels[0]
            P = L.prob
            if any(u is None for u in L.u):
                continue
            U = ctx.shadow.reference_nodes(L.u[0], L.time, L.dt)
            for m in range(1, L.sweep.coll.num_nodes + 1):
                g = P.dtype_u(L.u[0])
                np.asarray(g).reshape(-1)[:] = U[m - 1].real if not np.iscomplexobj(np.asarray(g)) else U[m - 1]
                L.u[m] = g
                L.f[m] = P.eval_f(L.u[m], L.time + L.dt * L.sweep.coll.nodes[m - 1])
            L.status.updated = True
            ctx.exact_probes.append((ctx.block, S.status.slot, S.status.iter))
            ctx.res.fault('soft_exact')
            ctx.log.add('inj', 'soft', ctx.block, S.status.slot, 0, 0, 'exact')
            continue
        if f['level'] >= len(S.levels):
            continue
        L = S.levels[f['level']]
        m = 1 + (f['node'] % L.sweep.coll.num_nodes)
        if L.u[m] is None:
            continue
        P = L.prob
        if f['kind'] == 'inplace':
            # the way pySDC's own Resilience.FaultInjector corrupts data: it writes into the array the level holds
            m = f['node'] % (L.sweep.coll.num_nodes + 1)
            if L.u[m] is None:
                continue
            np.asarray(L.u[m])[...] = np.asarray(L.u[m]) * (1.0 + f['rel']) + f['rel']
            if L.f[m] is not None:
                L.f[m] = P.eval_f(L.u[m], L.time + (L.dt * L.sweep.coll.nodes[m - 1] if m > 0 else 0.0))
            ctx.res.fault('soft_inplace')
            ctx.log.add('inj', 'soft', ctx.block, S.status.slot, f['level'], m, 'inplace')
            continue
        if f['kind'] == 'add':
            scale = max(abs(L.u[m]), 1e-300)
            L.u[m] = L.u[m] + f['rel'] * scale
        elif f['kind'] == 'nan':
            g = P.dtype_u(P.init, val=0.0)
            np.asarray(g).reshape(-1)[:] = np.nan
            L.u[m] = g
        else:  # garbage of the right type
            rnd = random.Random(f"garbage/{f['seed']}")
            g = P.dtype_u(P.init, val=0.0)
            flat = np.asarray(g).reshape(-1)
            flat[:] = [rnd.uniform(-1, 1) * 10 ** rnd.uniform(-3, 3) for _ in range(flat.size)]
            L.u[m] = g
        # keep the level self-consistent: f belongs to u
        L.f[m] = P.eval_f(L.u[m], L.time + L.dt * L.sweep.coll.nodes[m - 1])
        ctx.res.fault('soft_' + f['kind'])
        ctx.log.add('inj', 'soft', ctx.block, S.status.slot, f['level'], m, f['kind'])


def make_ccs(ctx):
    """Injector / monitor convergence controllers (classes created per run so that ctx is bound by closure)."""
    from pySDC.core.convergence_controller import ConvergenceController
    from pySDC.implementations.convergence_controller_classes.check_convergence import CheckConvergence

    _check_convergence = CheckConvergence.check_convergence

    def base(order, **methods):
        def setup(self, controller, params, description, **kw):
            return {'control_order': order, **ConvergenceController.setup(self, controller, params, description, **kw)}

        return type(f'Verif_{order}'.replace('-', 'm'), (ConvergenceController,), {'setup': setup, **methods})

    # ---- order -60: error estimates from the script (after EstimateEmbeddedError at -80, before Adaptivity at -50)
    def est_post_iter(self, controller, S, **kw):
        e = ctx.est
        if e is None or S.status.iter == 0:
            return
        L0 = S.levels[0]
        key = (ctx.block, S.status.slot)
        noise = random.Random(f"noise/{e['seed']}/{key[0]}/{key[1]}/{S.status.iter}").uniform(*e['noise'])
        val = e['c'] * L0.dt ** (e['order'] + 1) * noise
        if key in ctx.exc and S.status.iter >= S.params.maxiter:
            f = ctx.exc[key]
            val = e['e_tol'] if f == 'tie' else val * f
            ctx.res.fault('estimate_tie' if f == 'tie' else 'estimate_excursion')
        for L in S.levels:
            L.status.error_embedded_estimate = val
        ctx.log.add('inj', 'estimate', key[0], key[1], S.status.iter, val)

    InjEstimate = base(-60, post_iteration_processing=est_post_iter)

    # ---- order -49: monitor of the raw proposal
    def mon_raw(self, controller, S, **kw):
        L = S.levels[0]
        ctx.cc.append(
            {
                'at': 'raw',
                'block': ctx.block,
                'slot': S.status.slot,
                'iter': S.status.iter,
                'dt': L.dt,
                'dt_new': L.status.dt_new,
                'e_est': L.status.get('error_embedded_estimate'),
                'e_extrap': L.status.get('error_extrapolation_estimate'),
                'order_est': L.status.get('order_embedded_estimate'),
                'restart': bool(S.status.get('restart')),
                'force_done': bool(S.status.force_done),
                'residual': L.status.residual,
                'converged_now': bool(_check_convergence(S)),
                'num_nodes': L.sweep.coll.num_nodes,
            }
        )

    MonRaw = base(-49, get_new_step_size=mon_raw)

    # ---- order 89: restart requests and direct step-size proposals from the script
    def inj_dt(self, controller, S, **kw):
        key = (ctx.block, S.status.slot)
        if key in ctx.dtnew:
            # idempotent: the same proposal at every check of this attempt; the one standing at the end of the block counts
            for L in S.levels:
                L.status.dt_new = L.params.dt * ctx.dtnew[key]
            ctx.res.fault('dt_proposal')
            ctx.log.add('inj', 'dtnew', key[0], key[1], ctx.dtnew[key])

    def inj_restart(self, controller, S, **kw):
        key = (ctx.block, S.status.slot)
        if key in ctx.restarts and (S.status.iter >= S.params.maxiter or ctx.faults.get('restart_any_iter')):
            if not S.status.restart:
                ctx.res.fault('restart_request')
                ctx.log.add('inj', 'restart', key[0], key[1], S.status.iter)
            S.status.restart = True

    Inj89 = base(89, get_new_step_size=inj_dt, determine_restart=inj_restart)

    # ---- order 97: monitor after limiters (91-93) and after the restart decision (95), before spreading (100)
    def mon_lim(self, controller, S, **kw):
        L = S.levels[0]
        ctx.cc.append(
            {
                'at': 'limited',
                'block': ctx.block,
                'slot': S.status.slot,
                'iter': S.status.iter,
                'dt': L.dt,
                'dt_new': L.status.dt_new,
                'restart': bool(S.status.get('restart')),
                'restarts_in_a_row': S.status.get('restarts_in_a_row'),
            }
        )

    MonLim = base(97, check_iteration_status=mon_lim)

    # ---- order 190: convergence verdicts and force flags (just before CheckConvergence at 200)
    def inj_verdict(self, controller, S, **kw):
        key = (ctx.block, S.status.slot, S.status.iter)
        v = ctx.verdicts.get(key, ctx.verdicts.get((-1, S.status.slot, S.status.iter), ctx.verdict_default))
        L = S.levels[0]
        if v is not None:
            L.status.residual = 0.0 if v else 1.0
            ctx.res.fault('verdict')
        what = ctx.force.get(key, ctx.force.get((-1, S.status.slot, S.status.iter)))
        if what == 'done':
            S.status.force_done = True
            ctx.res.fault('force_done')
        elif what == 'continue':
            S.status.force_continue = True
            ctx.res.fault('force_continue')
        a = ctx.cur.get(S.status.slot)
        if a is not None:
            a.setdefault('checks', []).append((S.status.iter, L.status.residual, what, L.status.sweep))
        ctx.log.add('inj', 'verdict', key[0], key[1], key[2], v, what)

    InjVerdict = base(190, post_iteration_processing=inj_verdict)

    # ---- order -1000: first in every callback round -> end-of-block state before anybody prepares the next block
    def first_prepare(self, controller, S, size, time, Tend, MS=None, **kw):
        if MS is None:  # controller_MPI: one step per rank, `time` is the start time of the next block
            MS, time = [S], [time]
        b = ctx.blocks[-1]
        if b.get('ended'):
            return
        b['ended'] = True
        b['final'] = []
        for T in MS:
            a = ctx.cur.get(T.status.slot)
            b['final'].append(
                {
                    'slot': T.status.slot,
                    'restart': bool(T.status.get('restart')),
                    'digest': state_digest(T),
                    'iter': T.status.iter,
                    'done': T.status.done,
                    'dt': T.dt,
                    'dt_new': T.levels[0].status.dt_new,
                    'u0': np.array(T.levels[0].u[0]),
                    'uend_same_obj': a is not None and a.get('uend_obj') is T.levels[0].uend,
                    'restarts_in_a_row': T.status.get('restarts_in_a_row'),
                }
            )
            if a is not None:
                a['restart_final'] = bool(T.status.get('restart'))
        flags = [f['restart'] for f in b['final']]
        b['restart_at'] = flags.index(True) if True in flags else len(flags)
        for i, T in enumerate(MS):
            a = ctx.cur.get(T.status.slot)
            if a is not None:
                a['accepted'] = i < b['restart_at']
        b['time_list'] = list(time)
        ctx.log.add('blk', 'end', ctx.block, [f['restart'] for f in b['final']], [f['iter'] for f in b['final']])

    MonFirst = base(-1000, prepare_next_block=first_prepare)

    return {'InjEstimate': InjEstimate, 'MonRaw': MonRaw, 'Inj89': Inj89, 'MonLim': MonLim, 'InjVerdict': InjVerdict, 'MonFirst': MonFirst}


# ------------------------------------------------------------------------------------------------ counting problems
_COUNTING = {}


def counting_class(cls):
    """Subclass that counts eval_f / solve_system calls independently of pySDC's work counters (module level: dill)."""
    if cls in _COUNTING:
        return _COUNTING[cls]

    def eval_f(self, *a, **k):
        c = CURRENT_CTX[0].work.setdefault(id(self), {})
        c['eval_f'] = c.get('eval_f', 0) + 1
        return cls.eval_f(self, *a, **k)

    def solve_system(self, *a, **k):
        c = CURRENT_CTX[0].work.setdefault(id(self), {})
        c['solve_system'] = c.get('solve_system', 0) + 1
        return cls.solve_system(self, *a, **k)

    sub = type('Counting_' + cls.__name__, (cls,), {'eval_f': eval_f, 'solve_system': solve_system, '__module__': __name__})
    globals()[sub.__name__] = sub
    _COUNTING[cls] = sub
    return sub


CURRENT_CTX = [None]


# ------------------------------------------------------------------------------------------------ build and run
def conv_params(p):
    """JSON -> python for problem parameters (complex lists etc.)."""
    out = {}
    for k, v in p.items():
        if k in ('lambdas', 'lambdas_implicit', 'lambdas_explicit'):
            out[k] = np.array([complex(a, b) for a, b in v])
        elif k == 'u0' and isinstance(v, list):
            out[k] = np.array(v, dtype=float)
        elif k == 'nvars' and isinstance(v, list) and v and isinstance(v[0], list):
            out[k] = [tuple(x) for x in v]
        elif k == 'nvars' and isinstance(v, list):
            out[k] = v  # one entry per level
        else:
            out[k] = v
    return out


def build(sc, ctx, extra_hooks=(), counting=False, plain=False, shared=None):
    """plain=True: no observer/instrumentation (C19 histories); shared=(controller_params, description): construct from these
    very dictionaries (pySDC's constructors mutate them) instead of fresh ones."""
    from pySDC.implementations.controller_classes.controller_nonMPI import controller_nonMPI

    cfg = sc['config']
    pcls = resolve(cfg['problem']['class'])
    if counting:
        pcls = counting_class(pcls)
    desc = {
        'problem_class': pcls,
        'problem_params': conv_params(cfg['problem'].get('params', {})),
        'sweeper_class': resolve(cfg['sweeper']['class']),
        'sweeper_params': dict(cfg['sweeper']['params']),
        'level_params': dict(cfg['level']),
        'step_params': dict(cfg['step']),
    }
    if cfg.get('transfer'):
        desc['space_transfer_class'] = resolve(cfg['transfer']['class'])
        desc['space_transfer_params'] = dict(cfg['transfer'].get('params', {}))
        if cfg['transfer'].get('base_params'):
            desc['base_transfer_params'] = dict(cfg['transfer']['base_params'])
        if cfg['transfer'].get('base_class'):
            desc['base_transfer_class'] = resolve(cfg['transfer']['base_class'])
    ccs = {}
    for name, params in cfg.get('cc', []):
        ccs[resolve(name)] = dict(params)
    if not plain:
        vcc = make_ccs(ctx)
        for name in sc.get('plugins', ['MonFirst']):
            ccs[vcc[name]] = {}
    desc['convergence_controllers'] = ccs
    hooks = ([] if plain else [make_observer(ctx)]) + [resolve(h) for h in cfg.get('hooks', [])] + list(extra_hooks)
    if sc.get('between_steps_work') and not plain:
        # a user hook listed last that works with the step's problem after the step (as the shipped error hooks do through u_exact)
        from pySDC.core.hooks import Hooks

        nwork = int(sc['between_steps_work'])

        def _post_step(self, step, level_number):
            Hooks.post_step(self, step, level_number)
            L = step.levels[0]
            for _ in range(nwork):
                L.prob.eval_f(L.u[0], L.time)
            ctx.res.fault('work_between_steps')

        hooks.append(type('BetweenStepsWork', (Hooks,), {'post_step': _post_step}))
    cparams = {'logger_level': 90, 'dump_setup': False, 'hook_class': hooks, **cfg.get('controller', {})}
    if shared is not None:
        if not shared:
            shared.extend([cparams, desc])
        cparams, desc = shared
    if cfg.get('controller_class') == 'ParaDiag':
        from pySDC.implementations.controller_classes.controller_ParaDiag_nonMPI import controller_ParaDiag_nonMPI

        ctrl = controller_ParaDiag_nonMPI(cfg['P'], cparams, desc)
    else:
        ctrl = controller_nonMPI(cfg['P'], cparams, desc)
    logging.getLogger().handlers.clear()
    ctx.ctrl = ctrl
    ctx.desc = desc
    if not plain:
        instrument(ctrl, ctx)
    return ctrl


def instrument(ctrl, ctx):
    """Observation-only wrappers on the controller instance."""
    paradiag = not hasattr(ctrl, 'pfasst')
    orig_pfasst, orig_restart = (ctrl.ParaDiag if paradiag else ctrl.pfasst), ctrl.restart_block
    orig_send, orig_recv = getattr(ctrl, 'send_full', None), getattr(ctrl, 'recv_full', None)

    def pfasst(MS_active):
        stages = sorted({S.status.stage for S in MS_active if S.status.stage != 'DONE'})
        if len(stages) > 1 and ctx.lockstep_bad is None:
            ctx.lockstep_bad = (ctx.block, stages)
        ctx.blocks[-1]['pfasst_calls'] = ctx.blocks[-1].get('pfasst_calls', 0) + 1
        return orig_pfasst(MS_active)

    def restart_block(active_slots, time, u0):
        ctx.block += 1
        if ctx.block > ctx.sc.get('max_blocks', 3000):
            raise StepCapExceeded(f'more than {ctx.sc.get("max_blocks", 400)} blocks')
        ctx.cur = {}
        ctx.blocks.append(
            {
                'index': ctx.block,
                'active_slots': list(active_slots),
                'time': [time[p] for p in active_slots],
                'u0': None if u0 is None else np.array(u0),
                'u0_obj': u0,
            }
        )
        ctx.log.add('blk', 'start', ctx.block, list(active_slots), [time[p] for p in active_slots], bdigest(u0))
        return orig_restart(active_slots, time, u0)

    def send_full(S, level=None, add_to_stats=False):
        r = orig_send(S, level=level, add_to_stats=add_to_stats)
        acted = not S.status.last
        L = S.levels[level]
        ctx.comm.append(('send', ctx.block, S.status.slot, level, S.status.iter, acted, bdigest(L.uend) if acted else None, ctx.seq))
        return r

    def recv_full(S, level=None, add_to_stats=False):
        acted = (not S.status.prev_done) and (not S.status.first)
        r = orig_recv(S, level=level, add_to_stats=add_to_stats)
        L = S.levels[level]
        src = S.prev.levels[level] if acted else None
        ctx.comm.append(
            (
                'recv',
                ctx.block,
                S.status.slot,
                level,
                S.status.iter,
                acted,
                bdigest(L.u[0]) if acted else None,
                ctx.seq,
                None if src is None else S.prev.status.slot,
                None if src is None else bdigest(src.uend),
                None if src is None else src.tag,
                None
                if src is None or not (src.sweep.coll.right_is_node and not src.sweep.params.do_coll_update)
                else bdigest(src.uend) == bdigest(src.u[-1]),
            )
        )
        return r

    ctrl.restart_block = restart_block
    if paradiag:
        ctrl.ParaDiag = pfasst
    else:
        ctrl.pfasst, ctrl.send_full, ctrl.recv_full = pfasst, send_full, recv_full


def initial_value(ctrl, spec, t0):
    return initial_value_for(ctrl.MS[0].levels[0].prob, spec, t0)


def initial_value_for(P, spec, t0):
    if spec == 'exact':
        return P.u_exact(t0)
    u = P.dtype_u(P.init, val=0.0)
    flat = np.asarray(u).reshape(-1)
    if spec == 'ones':
        flat[:] = 1.0
    else:
        rnd = random.Random(f'u0/{spec}')
        if np.iscomplexobj(flat):
            flat[:] = [complex(rnd.uniform(-1, 1), rnd.uniform(-1, 1)) for _ in range(flat.size)]
        else:
            flat[:] = [rnd.uniform(-1, 1) for _ in range(flat.size)]
    return u


class Trace:
    pass


def _reset_ctx_for_leg(ctx):
    ctx.block = -1
    ctx.events, ctx.attempts, ctx.cur, ctx.blocks, ctx.comm, ctx.cc, ctx.problems = [], [], {}, [], [], [], []
    ctx.shadow_recs = []
    ctx.lockstep_bad = None
    if hasattr(ctx, 'stat_writes'):
        ctx.stat_writes = []


class LegView:
    """The observations of one run() call (one leg) -- same attribute names the oracles use on Ctx."""

    def __init__(self, ctx):
        for k in ('events', 'attempts', 'blocks', 'comm', 'cc', 'problems', 'lockstep_bad', 'faults', 'sc', 'res', 'log', 'shadow', 'shadow_recs'):
            setattr(self, k, getattr(ctx, k))
        if hasattr(ctx, 'stat_writes'):
            self.stat_writes = ctx.stat_writes


def run(sc, res=None, log=None, extra_hooks=(), counting=False, keep_ctrl=False):
    """Build the controller described by sc['config'], run it under sc['faults'], return the Trace.
    With config.run.legs = [T1, T2, ...] the same controller is run leg after leg, each continuing from the returned
    value and time of the previous one; tr.legs holds one Trace per leg (tr itself is the last leg)."""
    res = res if res is not None else Result()
    log = log if log is not None else EventLog()
    ctx = Ctx(sc, res, log)
    CURRENT_CTX[0] = ctx
    warnings.simplefilter('ignore')
    np.seterr(all='ignore')
    # scipy's BarycentricInterpolator (used by pySDC's space transfer) draws a permutation from numpy's GLOBAL RNG: pin it so
    # that one seed is one execution (the dependence itself is C19's business, finding F11)
    np.random.seed(20260925)
    if sc.get('spy_stats'):
        install_stats_spy()
    ctrl = build(sc, ctx, extra_hooks=extra_hooks, counting=counting)
    if sc.get('shadow'):
        from sim.physics import Shadow

        ctx.shadow = Shadow(sc)
    rc = sc['config']['run']
    ends = list(rc.get('legs') or []) + [rc['Tend']]
    t_start = rc['t0']
    u0 = initial_value(ctrl, rc.get('u0', 'exact'), rc['t0'])
    legs = []
    for li, t_end in enumerate(ends):
        if li > 0:
            if not t_end > t_start + 1e-9 * max(1.0, abs(t_start)):
                continue
            _reset_ctx_for_leg(ctx)
        tr = Trace()
        tr.res, tr.log = res, log
        tr.exc, tr.ret, tr.stats, tr.ret_copy = None, None, None, None
        tr.t0, tr.Tend, tr.leg = t_start, t_end, li
        tr.ctrl = ctrl
        tr.u0_obj = u0
        ctx.caller_u0 = u0
        tr.u0_before = np.array(u0)
        log.add('leg', li, t_start, t_end)
        try:
            uend, stats = ctrl.run(u0=u0, t0=t_start, Tend=t_end)
            tr.ret, tr.stats = uend, stats
            tr.ret_copy = None if uend is None else np.array(uend)
        except StepCapExceeded as e:
            tr.exc = ('StepCapExceeded', str(e))
        except Exception as e:  # noqa: BLE001 - classified by the oracles (ConvergenceError is a legal outcome)
            tr.exc = (type(e).__name__, str(e)[:300])
            try:
                tr.stats = ctrl.return_stats()
            except Exception:  # noqa: BLE001
                tr.stats = None
        tr.u0_after = np.array(u0)
        log.add('end', tr.exc, None if tr.ret is None else bdigest(tr.ret), len(ctx.attempts))
        tr.ctx = LegView(ctx) if len(ends) > 1 else ctx
        res['ticks'] = ctx.seq
        acc = [a for a in ctx.attempts if a.get('post') and a.get('accepted', False)]
        res['model_time'] += float(sum(a['dt'] for a in acc))
        res['info']['attempts'] = res['info'].get('attempts', 0) + len(ctx.attempts)
        res['info']['blocks'] = res['info'].get('blocks', 0) + len(ctx.blocks)
        legs.append(tr)
        if tr.exc is not None or tr.ret is None:
            break
        # continue from the returned value and the time actually reached
        u0 = tr.ret
        t_start = (acc[-1]['t'] + acc[-1]['dt']) if acc else t_end
    tr = legs[-1]
    tr.legs = legs
    if not keep_ctrl:
        for t in legs:
            t.ctrl = None
        ctx.ctrl = None
    return tr


def accepted(ctx):
    """Accepted steps: attempts with a post_step whose final restart flag (at the end of their block) is false,
    in start-time order."""
    acc = [a for a in ctx.attempts if a.get('post') and a.get('accepted', False)]
    return sorted(acc, key=lambda a: (a['block'], a['slot']))


# ------------------------------------------------------------------------------------------------ stats spy
_SPY_INSTALLED = [False]


def install_stats_spy():
    """Record every write into the statistics (key, value digest, order) -- class-level wrapper, idempotent."""
    if _SPY_INSTALLED[0]:
        return
    from pySDC.core.hooks import Hooks

    orig_add, orig_inc = Hooks.add_to_stats, Hooks.increment_stats

    def key_of(self, kwargs):
        meta = {**self.meta_data, **kwargs, 'num_restarts': self._Hooks__num_restarts}
        return self.entry(**meta)

    def add_to_stats(self, value, **kwargs):
        ctx = CURRENT_CTX[0]
        if ctx is not None and hasattr(ctx, 'stat_writes'):
            ctx.stat_writes.append(('add', key_of(self, kwargs), value, type(self).__name__, ctx.seq, bdigest(value) if isinstance(value, np.ndarray) else None))
        return orig_add(self, value, **kwargs)

    def increment_stats(self, value, initialize=None, **kwargs):
        ctx = CURRENT_CTX[0]
        if ctx is not None and hasattr(ctx, 'stat_writes'):
            ctx.stat_writes.append(('inc', key_of(self, kwargs), value, type(self).__name__, ctx.seq, None))
        return orig_inc(self, value, initialize=initialize, **kwargs)

    Hooks.add_to_stats, Hooks.increment_stats = add_to_stats, increment_stats
    _SPY_INSTALLED[0] = True
