"""Forking worker pool: every chunk of runs executes in a freshly forked child of a warm parent.

The parent has imported pySDC (and whatever the engine needs) but never constructed a controller.  Children stream
one pickled record per run through a pipe, so a hang or crash is attributed to the run that caused it.  A child
that exceeds its wall limit is killed and the run is classified HARNESS-TIMEOUT -- never a pass, never a violation.
"""
import faulthandler
import os
import pickle
import select
import signal
import struct
import sys
import time
import traceback


def _child(fd, func, items, per_run_timeout):
    out = os.fdopen(fd, 'wb', buffering=0)
    try:
        for item in items:
            if per_run_timeout:
                faulthandler.dump_traceback_later(per_run_timeout, exit=True)
            try:
                rec = ('ok', item[0], func(*item))
            except BaseException:  # noqa: BLE001 - reported to the parent as a harness error
                rec = ('err', item[0], traceback.format_exc())
            if per_run_timeout:
                faulthandler.cancel_dump_traceback_later()
            blob = pickle.dumps(rec, protocol=4)
            out.write(struct.pack('<Q', len(blob)) + blob)
        out.close()
    finally:
        os._exit(0)


class _Job:
    def __init__(self, pid, fd, items, deadline):
        self.pid, self.fd, self.items, self.deadline = pid, fd, items, deadline
        self.buf = b''
        self.done = 0


def run_forked(func, items, workers=16, chunk=20, per_run_timeout=120, budget_s=None, on_record=None):
    """Run func(*item) for every item (item[0] is its key) in forked children.

    Returns (records, stats): records = list of (status, key, payload) with status in ok|err|timeout|died;
    stats = dict(scheduled, skipped_for_budget).
    """
    items = list(items)
    chunks = [items[i : i + chunk] for i in range(0, len(items), chunk)]
    pending = list(reversed(chunks))
    jobs = {}
    records = []
    t0 = time.monotonic()
    skipped = 0

    def emit(rec):
        records.append(rec)
        if on_record:
            on_record(rec)

    def finish(job, why):
        try:
            os.close(job.fd)
        except OSError:
            pass
        try:
            os.kill(job.pid, signal.SIGKILL)
        except OSError:
            pass
        try:
            os.waitpid(job.pid, 0)
        except OSError:
            pass
        rest = job.items[job.done :]
        if rest:
            # the first unfinished run is the culprit; the others were never started
            emit((why, rest[0][0], f'child {why} before finishing this run'))
            for it in rest[1:]:
                emit(('notrun', it[0], 'chunk aborted'))

    while pending or jobs:
        while pending and len(jobs) < workers:
            if budget_s is not None and time.monotonic() - t0 > budget_s:
                skipped += sum(len(c) for c in pending)
                pending = []
                break
            c = pending.pop()
            r, w = os.pipe()
            sys.stdout.flush()
            sys.stderr.flush()
            pid = os.fork()
            if pid == 0:
                os.close(r)
                for j in jobs.values():
                    try:
                        os.close(j.fd)
                    except OSError:
                        pass
                _child(w, func, c, per_run_timeout)
            os.close(w)
            jobs[r] = _Job(pid, r, c, time.monotonic() + per_run_timeout * len(c) + 30)
        if not jobs:
            break
        ready, _, _ = select.select(list(jobs), [], [], 1.0)
        now = time.monotonic()
        for fd in ready:
            job = jobs[fd]
            try:
                data = os.read(fd, 1 << 20)
            except OSError:
                data = b''
            if not data:
                del jobs[fd]
                finish(job, 'died')
                continue
            job.buf += data
            while len(job.buf) >= 8:
                (n,) = struct.unpack('<Q', job.buf[:8])
                if len(job.buf) < 8 + n:
                    break
                rec = pickle.loads(job.buf[8 : 8 + n])
                job.buf = job.buf[8 + n :]
                job.done += 1
                emit(rec)
        for fd, job in list(jobs.items()):
            if now > job.deadline:
                del jobs[fd]
                finish(job, 'timeout')
    return records, {'scheduled': len(items) - skipped, 'skipped_for_budget': skipped}
