"""Minimisation (greedy delta debugging over module-supplied shrink candidates), replay files, replay verification."""
import hashlib
import json
import os
import subprocess
import sys
import time

import sim
from sim.core import pool, findings
from sim.core.base import sig_of

_CTX = {}


def _try(idx, sc):
    res = _CTX['mod'].execute(sc)
    return [v for v in res['violations']], res['digest']


def minimize(mod, sc, v, kf, workers=16, budget_s=120, max_rounds=200):
    """Shrink while a violation with the same signature (and not a known finding) persists."""
    want = sig_of(v)
    t0 = time.monotonic()
    _CTX['mod'] = mod
    tried = 0
    rounds = 0
    while rounds < max_rounds and time.monotonic() - t0 < budget_s:
        rounds += 1
        cands = []
        seen = set()
        for c in mod.shrink(sc):
            key = json.dumps(c, sort_keys=True)
            if key in seen or key == json.dumps(sc, sort_keys=True):
                continue
            seen.add(key)
            cands.append(c)
            if len(cands) >= 64:
                break
        if not cands:
            break
        recs, _ = pool.run_forked(
            _try, list(enumerate(cands)), workers=workers, chunk=1, per_run_timeout=mod.plan('quick').get('timeout', 120)
        )
        tried += len(cands)
        good = {}
        for st, key, payload in recs:
            if st != 'ok':
                continue
            viols, _dig = payload
            for w in viols:
                if sig_of(w) == want and findings.match(kf, w) is None:
                    good[key] = w
        if not good:
            break
        k = min(good)  # candidates come ordered: most aggressive simplification first
        sc, v = cands[k], good[k]
    return sc, v, {'rounds': rounds, 'tried': tried}


def write_replay(prop, sc, v, mod):
    res = mod.execute(sc) if getattr(mod, 'REPLAY_INPROCESS_DIGEST', False) else None
    body = {
        'format': 1,
        'property': prop,
        'scenario': sc,
        'expect': {'signature': list(sig_of(v)), 'detail': v['detail'], 'ident': v.get('ident', {})},
    }
    if res is not None:
        body['expect']['trace_sha256'] = res['digest']
    blob = json.dumps(body, indent=1, sort_keys=True)
    h = hashlib.sha1(blob.encode()).hexdigest()[:10]
    name = f"{prop}-{v['clause']}-{h}.json".replace('/', '_')
    d = os.environ.get('VERIF_REPLAY_DIR') or os.path.join(sim.VERIF_DIR, 'replays')
    os.makedirs(d, exist_ok=True)
    path = os.path.join(d, name)
    with open(path, 'w') as f:
        f.write(blob)
    return path


def verify_replay(path):
    """Re-execute the replay file in a fresh interpreter; it must fail the same way (twice, same digest)."""
    digs = []
    for hs in ('0', '4242'):
        env = dict(os.environ)
        env['PYTHONHASHSEED'] = hs
        try:
            p = subprocess.run(
                [sys.executable, '-m', 'sim.replay', path], cwd=sim.VERIF_DIR, env=env, capture_output=True, text=True, timeout=900
            )
        except subprocess.TimeoutExpired:
            return False, 'timeout'
        if p.returncode != 1:
            return False, f'replay exit {p.returncode}: {(p.stdout + p.stderr)[-400:]}'
        d = [ln for ln in p.stdout.splitlines() if ln.startswith('DIGEST ')]
        digs.append(d[-1] if d else None)
    if digs[0] != digs[1] or digs[0] is None:
        return False, f'trace digests differ between two replays: {digs}'
    return True, ''
