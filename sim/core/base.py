"""Seeding, event log, digests, violation records -- shared by every engine."""
import hashlib
import json
import os
import random

import numpy as np


def env_seed():
    try:
        return int(os.environ.get('VERIF_SEED', '0'))
    except ValueError:
        return 0


def env_tier(default='quick'):
    t = os.environ.get('VERIF_TIER', default)
    return t if t in ('quick', 'thorough') else default


def rng_for(seed, prop, index, salt=''):
    """One PRNG per run, from a string: hash-stable, independent of PYTHONHASHSEED."""
    return random.Random(f'{seed}/{prop}/{index}/{salt}')


def fhex(x):
    """Canonical text of a float (or complex) for logs and replay files."""
    if isinstance(x, complex):
        return [float(x.real).hex(), float(x.imag).hex()]
    if x is None:
        return None
    return float(x).hex()


def bdigest(a):
    """Short digest of the bytes of an array-like (None -> 'None')."""
    if a is None:
        return 'None'
    arr = np.ascontiguousarray(np.asarray(a))
    return hashlib.sha1(arr.tobytes()).hexdigest()[:16]


def canon(obj):
    """Canonical, JSON-able form: floats as hex, numpy scalars unwrapped, tuples as lists, dict keys sorted."""
    if isinstance(obj, (bool, str)) or obj is None:
        return obj
    if isinstance(obj, (int, np.integer)):
        return int(obj)
    if isinstance(obj, (float, np.floating)):
        return float(obj).hex()
    if isinstance(obj, (complex, np.complexfloating)):
        return [float(obj.real).hex(), float(obj.imag).hex()]
    if isinstance(obj, (bytes, bytearray)):
        return 'b:' + bytes(obj).hex()
    if isinstance(obj, np.ndarray):
        return 'a:' + bdigest(obj)
    if isinstance(obj, dict):
        return {str(k): canon(obj[k]) for k in sorted(obj, key=str)}
    if isinstance(obj, (list, tuple)):
        return [canon(o) for o in obj]
    return repr(obj)


class EventLog:
    """Append-only list of tuples; its SHA-256 is the trace digest.  Never draws randomness, never reads a clock."""

    def __init__(self, keep=400):
        self._h = hashlib.sha256()
        self.n = 0
        self.head = []
        self.keep = keep

    def add(self, *entry):
        c = canon(entry)
        s = json.dumps(c, separators=(',', ':'))
        self._h.update(s.encode())
        self._h.update(b'\n')
        if self.n < self.keep:
            self.head.append(c)
        self.n += 1

    def digest(self):
        return self._h.hexdigest()


class Violation(dict):
    """A violation record: property, clause, site (= signature) + detail + ident (predicate data for known findings)."""

    def __init__(self, prop, clause, site, detail='', ident=None):
        super().__init__(prop=prop, clause=clause, site=site, detail=str(detail)[:600], ident=canon(ident or {}))

    @property
    def signature(self):
        return (self['prop'], self['clause'], self['site'])


def sig_of(v):
    return (v['prop'], v['clause'], v['site'])


class Result(dict):
    """What `execute(scenario)` returns (JSON-able)."""

    def __init__(self):
        super().__init__(
            violations=[],
            digest='',
            nontrivial=False,
            probes={},
            faults={},
            ticks=0,
            model_time=0.0,
            events=0,
            head=[],
            info={},
        )

    def probe(self, name, n=1):
        self['probes'][name] = self['probes'].get(name, 0) + n

    def fault(self, name, n=1):
        self['faults'][name] = self['faults'].get(name, 0) + n

    def violate(self, prop, clause, site, detail='', ident=None):
        v = Violation(prop, clause, site, detail, ident)
        # one record per signature per run keeps reports and minimisation focused
        if not any(sig_of(w) == v.signature for w in self['violations']):
            self['violations'].append(dict(v))

    def finish(self, log, head=12):
        self['digest'] = log.digest()
        self['events'] = log.n
        self['head'] = log.head[:head]
        return self


class HarnessError(Exception):
    """A bug or unsupported situation in /verif itself -- never reported as a VIOLATION."""


def canon_json(obj):
    """Make obj JSON-serialisable for evidence files (floats stay numbers; non-finite floats become strings)."""
    if isinstance(obj, (bool, str)) or obj is None:
        return obj
    if isinstance(obj, (int, np.integer)):
        return int(obj)
    if isinstance(obj, (float, np.floating)):
        x = float(obj)
        return x if x == x and abs(x) != float('inf') else repr(x)
    if isinstance(obj, (complex, np.complexfloating)):
        return [float(obj.real), float(obj.imag)]
    if isinstance(obj, (bytes, bytearray)):
        return bytes(obj).hex()
    if isinstance(obj, np.ndarray):
        return canon_json(obj.tolist())
    if isinstance(obj, dict):
        return {str(k): canon_json(v) for k, v in obj.items()}
    if isinstance(obj, (set, frozenset)):
        return sorted((canon_json(o) for o in obj), key=str)
    if isinstance(obj, (list, tuple)):
        return [canon_json(o) for o in obj]
    return repr(obj)
