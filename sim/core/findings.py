"""Known findings: /verif/known_findings.json is committed and never written at run time.

An entry suppresses a violation only if property, clause and site are equal AND every key of `ident_match` has the
same value in the violation's `ident` -- so a different violation of the same property is still reported.
Entries with status "fixed" suppress nothing.
"""
import json
import os

import sim
from sim.core.base import canon

PATH = os.path.join(sim.VERIF_DIR, 'known_findings.json')


def load():
    if not os.path.exists(PATH):
        return []
    with open(PATH) as f:
        return json.load(f).get('findings', [])


def match(entries, v):
    for e in entries:
        if e.get('status') != 'known':
            continue
        if e['property'] != v['prop'] or e['clause'] != v['clause'] or e['site'] != v['site']:
            continue
        ident = v.get('ident', {})
        if all(canon(ident.get(k)) == canon(val) for k, val in e.get('ident_match', {}).items()):
            return e
    return None
