"""The simulated MPI module.  Semantics implemented = the weakest the MPI standard allows (DESIGN 2.3):
non-overtaking matching per (communicator, source, dest, tag); synchronous sends complete only after the matching
receive is posted; standard sends may buffer (scheduler's coin); a matched non-blocking operation completes when the
scheduler says so; Test() may answer False after the match (bounded); collectives must be entered consistently, bcast
roots / Reduce non-roots may leave early; reductions combine in rank order; object messages are pickled at post."""
import pickle
import threading
import zlib

import numpy as np

ANY_TAG = -1
ANY_SOURCE = -2
PROC_NULL = -3


class Op:
    def __init__(self, name, fn):
        self.name, self.fn = name, fn

    def __repr__(self):
        return f'MPI.{self.name}'


SUM = Op('SUM', lambda a, b: a + b)
MAX = Op('MAX', lambda a, b: np.maximum(a, b))
MIN = Op('MIN', lambda a, b: np.minimum(a, b))
LAND = Op('LAND', lambda a, b: np.logical_and(a, b))
LOR = Op('LOR', lambda a, b: np.logical_or(a, b))


class Datatype:
    def __init__(self, name, np_dtype):
        self.name, self.np_dtype = name, np_dtype

    def __repr__(self):
        return f'MPI.{self.name}'


INT = Datatype('INT', np.dtype(int))
DOUBLE = Datatype('DOUBLE', np.dtype(float))
BOOL = Datatype('BOOL', np.dtype(bool))


class NotSimulated(Exception):
    """A call outside the simulated subset: a HARNESS-ERROR, never a verdict."""


class SimAbort(BaseException):
    """Raised inside a parked rank when the simulation is torn down (another rank raised, deadlock, step cap)."""


_WORLD = [None]


def world():
    w = _WORLD[0]
    if w is None:
        raise NotSimulated('no simulated MPI world is active')
    return w


def _buf(spec):
    """mpi4py buffer spec -> numpy array view (writes go through)."""
    if isinstance(spec, (list, tuple)):
        spec = spec[0]
    a = np.asarray(spec)
    return a


def _crc(a):
    return zlib.crc32(np.ascontiguousarray(a).tobytes())


class Request:
    def __init__(self, w, kind, owner):
        self.w, self.kind, self.owner = w, kind, owner
        self.matched = False
        self.complete = False
        self.ready_tick = None  # tick from which completion is allowed once matched
        self.only_at_wait = False
        self.tests = 0
        self.id = w.new_id()
        self.freed = False

    # --- scheduler-side evaluation
    def may_complete(self, waiting=False):
        if self.complete:
            return True
        if not self.matched:
            return False
        if self.only_at_wait and not waiting:
            return self.tests >= self.w.max_tests
        return self.w.tick >= self.ready_tick or self.tests >= self.w.max_tests

    def Test(self):
        w = self.w
        self.tests += 1
        w.park(lambda: True, ('Test', self.id))
        if not self.complete and self.may_complete():
            w.finish_request(self)
        if not self.complete:
            w.probe('test_returned_false')
        return self.complete

    def Wait(self, status=None):
        w = self.w
        if not self.complete:
            w.park(lambda: self.may_complete(waiting=True), ('Wait', self.id))
            w.finish_request(self)
        else:
            w.park(lambda: True, ('Wait-done', self.id))
        return True

    wait = Wait
    test = Test

    def Cancel(self):
        raise NotSimulated('Request.Cancel (iteration estimator) is excluded from the simulated subset')

    def Free(self):
        self.freed = True


class _Null:
    def Wait(self, status=None):
        return True

    def Test(self):
        return True

    def __eq__(self, other):
        return isinstance(other, _Null)

    def __ne__(self, other):
        return not isinstance(other, _Null)

    __hash__ = None


REQUEST_NULL = _Null()


class _Send(Request):
    def __init__(self, w, owner, ctx, src, dst, tag, mode, payload_fn, crc_fn, nbytes, blocking):
        super().__init__(w, 'send', owner)
        self.ctx, self.src, self.dst, self.tag, self.mode = ctx, src, dst, tag, mode
        self.payload_fn, self.crc_fn, self.nbytes, self.blocking = payload_fn, crc_fn, nbytes, blocking
        self.payload = None
        self.buffered = False
        self.crc_at_post = crc_fn() if crc_fn else None
        self.read_at_post = False
        self.recv = None


class _Recv(Request):
    def __init__(self, w, owner, ctx, src, dst, tag, buf, blocking, obj=False):
        super().__init__(w, 'recv', owner)
        self.ctx, self.src, self.dst, self.tag, self.buf, self.blocking, self.obj = ctx, src, dst, tag, buf, blocking, obj
        self.send = None
        self.value = None
        self.scribbled = False


class Comm:
    pass


class Intracomm(Comm):
    def __init__(self, w, ctx, members):
        self.w, self.ctx, self.members = w, ctx, list(members)  # members: world ranks in comm-rank order
        self.freed = False

    # --- identity
    def _me(self):
        return self.members.index(self.w.current())

    def Get_rank(self):
        return self._me()

    def Get_size(self):
        return len(self.members)

    rank = property(Get_rank)
    size = property(Get_size)

    def Free(self):
        self.w.log('mpi', self.w.current(), 'Free', self.ctx)

    def Abort(self, code=0):
        raise RuntimeError('MPI_Abort called')

    # --- point to point --------------------------------------------------------------------------------------------
    def _post_send(self, buf_or_obj, dest, tag, mode, blocking, obj):
        w = self.w
        me = self._me()
        if obj:
            blob = pickle.dumps(buf_or_obj)  # object messages are pickled at post, as mpi4py does
            payload_fn, crc_fn, nbytes = (lambda: blob), None, len(blob)
        else:
            arr = _buf(buf_or_obj)
            payload_fn, crc_fn, nbytes = (lambda: np.array(arr, copy=True)), (lambda: _crc(arr)), arr.nbytes
        s = _Send(w, w.current(), self.ctx, me, dest, tag, mode, payload_fn, crc_fn, nbytes, blocking)
        w.post_send(s)
        return s

    def Issend(self, buf, dest, tag=0):
        s = self._post_send(buf, dest, tag, 'sync', False, False)
        self.w.park(lambda: True, ('Issend', s.id))
        return s

    def Ssend(self, buf, dest, tag=0):
        s = self._post_send(buf, dest, tag, 'sync', True, False)
        s.Wait()

    def Isend(self, buf, dest, tag=0):
        s = self._post_send(buf, dest, tag, 'standard', False, False)
        self.w.park(lambda: True, ('Isend', s.id))
        return s

    def Send(self, buf, dest, tag=0):
        s = self._post_send(buf, dest, tag, 'standard', True, False)
        s.Wait()

    def isend(self, obj, dest, tag=0):
        s = self._post_send(obj, dest, tag, 'standard', False, True)
        self.w.park(lambda: True, ('isend', s.id))
        return s

    def send(self, obj, dest, tag=0):
        s = self._post_send(obj, dest, tag, 'standard', True, True)
        s.Wait()

    def issend(self, obj, dest, tag=0):
        s = self._post_send(obj, dest, tag, 'sync', False, True)
        self.w.park(lambda: True, ('issend', s.id))
        return s

    def Irecv(self, buf, source=ANY_SOURCE, tag=ANY_TAG):
        w = self.w
        r = _Recv(w, w.current(), self.ctx, source, self._me(), tag, _buf(buf), False)
        w.post_recv(r)
        w.park(lambda: True, ('Irecv', r.id))
        return r

    def Recv(self, buf, source=ANY_SOURCE, tag=ANY_TAG, status=None):
        w = self.w
        r = _Recv(w, w.current(), self.ctx, source, self._me(), tag, _buf(buf), True)
        w.post_recv(r)
        r.Wait()

    def recv(self, buf=None, source=ANY_SOURCE, tag=ANY_TAG, status=None):
        w = self.w
        r = _Recv(w, w.current(), self.ctx, source, self._me(), tag, None, True, obj=True)
        w.post_recv(r)
        r.Wait()
        return r.value

    def irecv(self, buf=None, source=ANY_SOURCE, tag=ANY_TAG):
        raise NotSimulated('irecv of pickled objects is outside the simulated subset')

    # --- collectives -----------------------------------------------------------------------------------------------
    def _coll(self, kind, root, contribution, early_exit_roles=()):
        return self.w.collective(self, kind, root, contribution, early_exit_roles)

    def Barrier(self):
        self._coll('Barrier', None, None)

    barrier = Barrier

    def allgather(self, sendobj):
        vals = self._coll('allgather', None, pickle.dumps(sendobj))
        return [pickle.loads(v) for v in vals]

    def gather(self, sendobj, root=0):
        vals = self._coll('gather', root, pickle.dumps(sendobj))
        return [pickle.loads(v) for v in vals] if self._me() == root else None

    def bcast(self, obj=None, root=0):
        me = self._me()
        vals = self._coll('bcast', root, pickle.dumps(obj) if me == root else None, early_exit_roles=('root',))
        return pickle.loads(vals[root])

    def Bcast(self, buf, root=0):
        me = self._me()
        arr = _buf(buf)
        vals = self._coll('Bcast', root, np.array(arr, copy=True) if me == root else None, early_exit_roles=('root',))
        if me != root:
            src = vals[root]
            if src.size != arr.size:
                raise ValueError('Bcast: message truncated / size mismatch')
            arr[...] = src.reshape(arr.shape)

    def allreduce(self, sendobj, op=SUM):
        vals = self._coll('allreduce:' + op.name, None, pickle.dumps(sendobj))
        acc = pickle.loads(vals[0])
        for v in vals[1:]:
            acc = op.fn(acc, pickle.loads(v))
        if isinstance(acc, np.ndarray) and acc.shape == ():
            acc = acc[()]
        if isinstance(acc, np.bool_):
            acc = bool(acc)
        return acc

    def Allreduce(self, sendbuf, recvbuf, op=SUM):
        vals = self._coll('Allreduce:' + op.name, None, np.array(_buf(sendbuf), copy=True))
        acc = vals[0]
        for v in vals[1:]:
            acc = op.fn(acc, v)
        out = _buf(recvbuf)
        out[...] = np.asarray(acc).reshape(out.shape)

    def Reduce(self, sendbuf, recvbuf, op=SUM, root=0):
        me = self._me()
        vals = self._coll('Reduce:' + op.name, root, np.array(_buf(sendbuf), copy=True), early_exit_roles=('nonroot',))
        if me == root:
            acc = vals[0]
            for v in vals[1:]:
                acc = op.fn(acc, v)
            out = _buf(recvbuf)
            out[...] = np.asarray(acc).reshape(out.shape)

    def reduce(self, sendobj, op=SUM, root=0):
        me = self._me()
        vals = self._coll('reduce:' + op.name, root, pickle.dumps(sendobj), early_exit_roles=('nonroot',))
        if me == root:
            acc = pickle.loads(vals[0])
            for v in vals[1:]:
                acc = op.fn(acc, pickle.loads(v))
            return acc
        return None

    def Split(self, color=0, key=0):
        me = self._me()
        vals = self._coll('Split', None, (int(color), int(key), me))
        w = self.w
        inst_id = vals[-1]  # unique id of this collective instance, appended by the world
        mine = [(k, r) for (c, k, r) in vals[:-1] if c == int(color)]
        mine.sort()
        members = [self.members[r] for _, r in mine]
        return w.comm_for(('split', self.ctx, inst_id, int(color)), members)

    def Ibcast(self, buf, root=0):
        raise NotSimulated('Ibcast (iteration estimator) is excluded from the simulated subset')

    def Dup(self):
        raise NotSimulated('Comm.Dup is outside the simulated subset')


class _WorldProxy:
    """MPI.COMM_WORLD resolves to the communicator of the active simulation."""

    def __getattr__(self, name):
        return getattr(world().comm_world, name)


COMM_WORLD = _WorldProxy()


class File:
    pass


def Wtime():
    return world().clock()
