"""Simulated mpi4py (deterministic, in-process).  Installed on sys.path by /verif's simmpi engine only.
Ranks are threads of which exactly one runs at a time; a seeded scheduler decides every interleaving, completion
timing, buffering and early exit that the MPI standard leaves open.  See /verif/DESIGN.md section 2.3."""
__version__ = '0.0.sim'
