def from_numpy_dtype(dtype):
    raise NotImplementedError('MPI-IO datatypes are outside the simulated subset')
