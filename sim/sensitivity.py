"""Sensitivity phase of the thorough tier: the check is run against scratch copies of /repo's working tree (tmpfs, removed
afterwards) that carry one seeded change each — the own mutants of mutants/<Cxx>.json and the sub-agent patches under
seeded/<Cxx>-*/ — and the evidence records how many the check reports.  Nothing here can raise an alarm: a surviving
mutant is recorded, a mutant whose pattern no longer applies to the (possibly edited) tree is skipped."""
import glob
import json
import os
import shutil
import subprocess
import sys
import tempfile
import time

import sim
from sim.tools import mutate


def _items(prop):
    out = []
    p = os.path.join(sim.VERIF_DIR, 'mutants', f'{prop}.json')
    if os.path.exists(p):
        for m in json.load(open(p)):
            out.append((f"own:{m['id']}", m))
    for d in sorted(glob.glob(os.path.join(sim.VERIF_DIR, 'seeded', '*'))):
        meta = os.path.join(d, 'meta.json')
        patch = os.path.join(d, 'patch.diff')
        if not (os.path.exists(meta) and os.path.exists(patch)):
            continue
        try:
            owner = json.load(open(meta)).get('property')
        except Exception:
            continue
        if owner == prop:
            out.append((f'seeded:{os.path.basename(d)}', {'diff': patch}))
    return out


def run(prop, seed, n=None, budget_s=2400, log=print):
    t0 = time.time()
    res = {'changes_run': 0, 'reported': 0, 'not_reported': [], 'skipped_not_applicable': [], 'not_run_for_budget': []}
    for name, m in _items(prop):
        if time.time() - t0 > budget_s:
            res['not_run_for_budget'].append(name)
            continue
        d = mutate.scratch_copy()
        rd = tempfile.mkdtemp(prefix='verif-mutreplay-', dir='/dev/shm')
        try:
            try:
                if 'diff' in m:
                    r = subprocess.run(['patch', '-p1', '-s', '-i', m['diff']], cwd=d, capture_output=True)
                    if r.returncode != 0:
                        raise SystemExit('patch does not apply')
                else:
                    mutate.apply_spec(d, m)
            except SystemExit:
                res['skipped_not_applicable'].append(name)
                continue
            env = dict(os.environ, VERIF_REPO=d, VERIF_REPLAY_DIR=rd, VERIF_SEED=str(seed), VERIF_TIER='quick')
            env.pop('VERIF_BUDGET_S', None)
            cmd = [sys.executable, '-m', 'sim.check', prop, '--tier', 'quick', '--no-selftest', '--no-minimize', '--evidence', os.path.join(rd, 'ev.json')]
            if n or m.get('n'):
                cmd += ['--n', str(m.get('n') or n)]
            try:
                p = subprocess.run(cmd, cwd=sim.VERIF_DIR, env=env, capture_output=True, text=True, timeout=1500)
                rc, out = p.returncode, p.stdout
            except subprocess.TimeoutExpired:
                rc, out = -1, ''
            killed = rc == 1 and any(ln.startswith('VIOLATION') for ln in out.splitlines())
            res['changes_run'] += 1
            if killed:
                res['reported'] += 1
            else:
                res['not_reported'].append(f'{name} (exit {rc})')
            log(f'[{prop}] sensitivity {name}: {"reported" if killed else "NOT reported"} (exit {rc}, {time.time() - t0:.0f}s)')
        finally:
            shutil.rmtree(d, ignore_errors=True)
            shutil.rmtree(rd, ignore_errors=True)
    res['wall_s'] = round(time.time() - t0, 1)
    return res
