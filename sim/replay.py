"""python -m sim.replay <file>: re-execute a replay file; exit 1 iff the recorded violation reproduces."""
import json
import sys

import sim

sim.bootstrap()

from sim.core.base import sig_of  # noqa: E402


def main(path):
    from sim.check import load

    with open(path) as f:
        body = json.load(f)
    mod = load(body['property'])
    res = mod.execute(body['scenario'])
    want = tuple(body['expect']['signature'])
    print('DIGEST ' + res['digest'])
    for v in res['violations']:
        print(f"violation: clause={v['clause']} site={v['site']} detail={v['detail']}")
    exp = body['expect'].get('trace_sha256')
    if any(sig_of(v) == want for v in res['violations']):
        if exp and exp != res['digest']:
            print(f'REPRODUCED-BUT-TRACE-DIFFERS expected={exp}')
            return 3
        print(f'REPRODUCED property={body["property"]} signature={list(want)}')
        return 1
    print('NOT-REPRODUCED')
    return 0


if __name__ == '__main__':
    sys.exit(main(sys.argv[1]))
