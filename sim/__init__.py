"""Deterministic simulation with fault injection for pySDC (see /verif/DESIGN.md)."""
import os
import sys

VERIF_DIR = os.path.dirname(os.path.dirname(os.path.abspath(__file__)))


def repo_path():
    """Directory pySDC is imported from: /repo unless VERIF_REPO points to a scratch copy (mutation runs)."""
    return os.environ.get('VERIF_REPO', '/repo')


def bootstrap():
    """Put the repository under test first on sys.path (before the editable install) and silence pySDC logging."""
    rp = repo_path()
    if rp in sys.path:
        sys.path.remove(rp)
    sys.path.insert(0, rp)
    # numpy/scipy must not start their own thread pools: one scheduler, one thread of control per rank
    for var in ('OMP_NUM_THREADS', 'OPENBLAS_NUM_THREADS', 'MKL_NUM_THREADS'):
        os.environ.setdefault(var, '1')
