"""Engine `simfs`: the real pySDC FieldsIO on a crashing disk, compared with a list-of-records model after every op.

Crash model (as the property states it): a *process* crash -- completed writes survive, the in-flight append is cut
after any byte.  An append cut at byte k is realised as "do the append, then truncate the file to old_size+k", which
is exactly equivalent for an append-only file (numpy's tofile/fromfile need a real descriptor, so files live in a
per-run scratch directory on tmpfs; nothing survives the run).
"""
import os
import random
import shutil
import struct
import subprocess
import sys
import tempfile

import numpy as np

from sim.core.base import EventLog, Result

DT_NAMES = {0: 'float64', 1: 'complex128', 2: 'float128', 3: 'complex256', 4: 'float32', 5: 'complex64'}


def scratch_dir():
    base = '/dev/shm' if os.path.isdir('/dev/shm') and os.access('/dev/shm', os.W_OK) else tempfile.gettempdir()
    return tempfile.mkdtemp(prefix='verif-simfs-', dir=base)


def payload(seed, nbytes):
    return random.Random(f'payload/{seed}').randbytes(nbytes)


def time_value(spec):
    """spec: ['hex', '0x1.8p+1'] or ['bits', 'hex-of-8-bytes'] -> python float with exactly these bits."""
    if spec[0] == 'hex':
        return float.fromhex(spec[1])
    return struct.unpack('<d', bytes.fromhex(spec[1]))[0]


def tbits(x):
    return struct.pack('<d', float(x))


class Model:
    def __init__(self):
        self.header = None  # dict(kind, dtype, nVar, coords(list of bytes))
        self.records = []  # list of (time_bits, field_bytes)
        self.exists = False
        self.dead_tail = 0  # bytes of a torn record at the tail of the file
        self.appended_after_torn = False


class FsSim:
    def __init__(self, sc, res, log):
        from pySDC.helpers import fieldsIO as fio_mod

        self.m = fio_mod
        self.sc, self.res, self.log = sc, res, log
        self.dir = scratch_dir()
        self.path = os.path.join(self.dir, 'f.pysdc')
        self.model = Model()
        self.hs = {}  # live handlers by id (several may be open on the one file)
        self.cur = 0

    @property
    def h(self):
        return self.hs.get(self.cur)

    @h.setter
    def h(self, val):
        if val is None:
            self.hs = {}  # the process died: every handler is gone
        else:
            self.hs[self.cur] = val

    def use(self, hid):
        self.cur = hid

    def close(self):
        self.m.FieldsIO.ALLOW_OVERWRITE = False
        shutil.rmtree(self.dir, ignore_errors=True)

    # -- helpers ---------------------------------------------------------------------------------------------
    def _new_handler(self, hd):
        dtype = self.m.DTYPES[hd['dtype']]
        if hd['kind'] == 'Scalar':
            h = self.m.Scalar(dtype, self.path)
            h.setHeader(nVar=hd['nVar'])
        else:
            h = self.m.Rectilinear(dtype, self.path)
            coords = [np.frombuffer(bytes.fromhex(c), dtype=np.float64) for c in hd['coords']]
            h.setHeader(nVar=hd['nVar'], coords=coords if len(coords) != 1 or hd.get('coords_as_list', True) else coords[0])
        return h

    def _field(self, hd, seed):
        dtype = np.dtype(self.m.DTYPES[hd['dtype']])
        n = hd['nVar'] * (int(np.prod(hd['grid'])) if hd['kind'] != 'Scalar' else 1)
        raw = payload(seed, n * dtype.itemsize)
        arr = np.frombuffer(raw, dtype=dtype).copy()
        if hd['kind'] != 'Scalar' and hd.get('shaped', True):
            arr = arr.reshape((hd['nVar'], *hd['grid']))
        return arr, raw

    def _reclen(self, hd):
        dtype = np.dtype(self.m.DTYPES[hd['dtype']])
        n = hd['nVar'] * (int(np.prod(hd['grid'])) if hd['kind'] != 'Scalar' else 1)
        return 8 + n * dtype.itemsize

    def _size(self):
        return os.path.getsize(self.path) if os.path.exists(self.path) else -1

    def _viol(self, clause, site, detail, **ident):
        if self.model.appended_after_torn and clause.startswith('roundtrip'):
            clause = 'append_after_torn_tail'
        hd = self.model.header or {}
        self.res.violate('C16', clause, site, detail, ident=dict(kind=hd.get('kind'), **ident))

    # -- operations -----------------------------------------------------------------------------------------
    def op_create(self, hd, allow=False, expect_exists=None):
        M = self.model
        self.m.FieldsIO.ALLOW_OVERWRITE = bool(allow)
        before = open(self.path, 'rb').read() if os.path.exists(self.path) else None
        h = self._new_handler(hd)
        try:
            h.initialize()
            raised = None
        except FileExistsError as e:
            raised = e
        finally:
            self.m.FieldsIO.ALLOW_OVERWRITE = False
        after = open(self.path, 'rb').read() if os.path.exists(self.path) else None
        if before is not None and not allow:
            self.res.probe('create_on_existing_refused')
            if raised is None:
                self._viol('overwrite_protection', 'initialize', 'existing file overwritten although ALLOW_OVERWRITE is False')
            if after != before:
                self._viol('overwrite_protection', 'initialize', 'bytes of the existing file changed by a refused initialize')
            if raised is None:
                M.header, M.records, M.dead_tail, M.appended_after_torn = hd, [], 0, False
                self.hs = {}  # handlers opened on the file that was just replaced are stale
                self.h = h
        else:
            if raised is not None:
                self._viol('overwrite_protection', 'initialize', f'initialize raised {raised!r} although allowed/no file')
            else:
                if before is not None:
                    self.res.probe('overwrite_allowed')
                M.header, M.records, M.exists, M.dead_tail, M.appended_after_torn = hd, [], True, 0, False
                self.hs = {}  # handlers opened on the file that was just replaced are stale
                self.h = h
        self.log.add('fs', 'create', hd['kind'], hd['dtype'], bool(allow), self._size())

    def op_append(self, tspec, seed):
        M = self.model
        if self.h is None:
            return
        t = time_value(tspec)
        arr, raw = self._field(M.header, seed)
        self.h.addField(t, arr)
        M.records.append((tbits(t), raw))
        if M.dead_tail:
            M.appended_after_torn = True
            self.res.probe('append_after_torn_tail')
        if self.cur != 0:
            self.res.probe('append_through_second_handle')
        self.log.add('fs', 'append', self.cur, tbits(t), len(raw), self._size())

    def _in_dying_process(self, limit, fn):
        """Run fn() in a forked child whose file-size limit is `limit` bytes: the kernel performs the write up to
        that offset and refuses the rest, the child dies without acknowledging.  Returns True iff fn completed."""
        import resource

        pid = os.fork()
        if pid == 0:
            code = 17
            try:
                resource.setrlimit(resource.RLIMIT_CORE, (0, 0))
                import signal

                signal.signal(signal.SIGXFSZ, signal.SIG_DFL)  # CPython ignores it; a real crash must kill
                resource.setrlimit(resource.RLIMIT_FSIZE, (limit, resource.RLIM_INFINITY))
                fn()
                code = 0
            except BaseException:  # noqa: BLE001 - the "process" dies here
                code = 17
            finally:
                os._exit(code)
        _, status = os.waitpid(pid, 0)
        return os.WIFEXITED(status) and os.WEXITSTATUS(status) == 0

    def op_crash_append(self, tspec, seed, k, base='size', who='self'):
        """An append in a process that dies once the file offset reaches base+k (base: current size, or the end of
        the last complete record).  k is an int, or a float fraction of the record length.  who='self': the process holding
        all handlers dies; who='other': a second writer process (holding a copy of the current handler) dies, the handlers
        of this process stay alive and keep being used."""
        M = self.model
        if self.h is None:
            return
        t = time_value(tspec)
        arr, raw = self._field(M.header, seed)
        old = self._size()
        reclen = 8 + len(raw)
        k = int(k) if isinstance(k, int) else int(round(float(k) * reclen))
        k = max(0, min(reclen, k))
        origin = old if base == 'size' else self.h.hSize + len(M.records) * reclen
        h = self.h
        done = self._in_dying_process(origin + k, lambda: h.addField(t, arr))
        new = self._size()
        self.res.fault('crash_in_append')
        if done:
            M.records.append((tbits(t), raw))
            if M.dead_tail:
                M.appended_after_torn = True
                self.res.probe('append_after_torn_tail')
            self.res.probe('crash_after_complete_record')
        else:
            grown = new - old
            if grown <= 0 and new >= old:
                self.res.probe('crash_before_first_byte')
            else:
                self.res.probe('torn_time_field' if 0 < grown < 8 else 'torn_payload')
            if M.dead_tail and new > old:
                M.appended_after_torn = True
            M.dead_tail = max(M.dead_tail, new - (self.h.hSize + len(M.records) * reclen), 1 if new > old else 0)
        if who == 'other':
            self.res.probe('crash_of_second_writer_handles_survive')
        else:
            self.h = None  # the process died: every handler is gone
        self.log.add('fs', 'crash_append', k, base, reclen, bool(done), self._size(), who)

    def op_crash_create(self, hd, k):
        h = self._new_handler(hd)
        hlen = h.hSize
        k = max(0, min(hlen, int(k) if isinstance(k, int) else int(round(float(k) * hlen))))
        done = self._in_dying_process(k, h.initialize)
        self.res.fault('crash_in_create')
        self.h = None
        self.model.exists = True
        self.log.add('fs', 'crash_create', k, hlen, bool(done), self._size())
        if done:
            self.model.header, self.model.records = hd, []
            return
        self.res.probe('torn_header')
        # oracle: fromFile raises, or reports no field at all
        try:
            g = self.m.FieldsIO.fromFile(self.path)
        except Exception as e:  # noqa: BLE001 - any rejection is fine
            self.log.add('fs', 'torn_header_rejected', type(e).__name__)
            self.model.header = None
            return
        try:
            nf = g.nFields
            ts = g.times
        except Exception as e:  # noqa: BLE001
            self.log.add('fs', 'torn_header_rejected_late', type(e).__name__)
            self.model.header = None
            return
        if nf > 0 or len(ts) > 0:
            self._viol('crash_create_reports_field', 'fromFile', f'header cut at byte {k}/{hlen}: nFields={nf}', k=k)
        else:
            try:
                g.readField(0)
                self._viol('crash_create_reports_field', 'readField', f'header cut at byte {k}/{hlen}: readField(0) returned', k=k)
            except Exception:  # noqa: BLE001
                pass
        self.model.header = None

    def op_reopen(self, how='generic'):
        M = self.model
        if M.header is None:
            return
        cls = self.m.FieldsIO if how == 'generic' else (self.m.Scalar if M.header['kind'] == 'Scalar' else self.m.Rectilinear)
        try:
            self.h = cls.fromFile(self.path)
        except Exception as e:  # noqa: BLE001
            self._viol('roundtrip_header', 'fromFile', f'fromFile raised {type(e).__name__}: {e}')
            self.h = None
            return
        self.res.probe('reopen')
        self.log.add('fs', 'reopen', how, self._size())
        self._check_header(self.h)

    def _check_header(self, h):
        hd = self.model.header
        want_cls = 'Scalar' if hd['kind'] == 'Scalar' else 'Rectilinear'
        if type(h).__name__ != want_cls:
            self._viol('roundtrip_header', 'fromFile', f'class {type(h).__name__} != {want_cls}')
        if h.dtype is not self.m.DTYPES[hd['dtype']]:
            self._viol('roundtrip_header', 'fromFile', f'dtype {h.dtype} != {DT_NAMES[hd["dtype"]]}')
        if int(h.header['nVar']) != hd['nVar']:
            self._viol('roundtrip_header', 'fromFile', f'nVar {h.header["nVar"]} != {hd["nVar"]}')
        if hd['kind'] != 'Scalar':
            got = [np.asarray(c, dtype=np.float64).tobytes().hex() for c in h.header['coords']]
            if got != list(hd['coords']):
                self._viol('roundtrip_header', 'fromFile', 'coords differ from what was written')

    def op_read(self, which='live'):
        """Compare everything readable with the model."""
        M = self.model
        if M.header is None:
            return
        if which == 'live' and self.h is not None:
            hs = [('live', self.h)]
        else:
            hs = []
        if which != 'live' or self.h is None:
            try:
                hs.append(('generic', self.m.FieldsIO.fromFile(self.path)))
                spec = self.m.Scalar if M.header['kind'] == 'Scalar' else self.m.Rectilinear
                hs.append(('special', spec.fromFile(self.path)))
            except Exception as e:  # noqa: BLE001
                self._viol('roundtrip_header', 'fromFile', f'fromFile raised {type(e).__name__}: {e}')
                return
        n = len(M.records)
        for name, h in hs:
            self._check_header(h)
            try:
                nf = h.nFields
            except Exception as e:  # noqa: BLE001
                self._viol('roundtrip_nfields', 'nFields', f'raised {type(e).__name__}: {e}')
                continue
            if nf != n:
                lost = nf < n
                clause = 'completed_record_lost' if lost else 'torn_record_reported'
                if not M.dead_tail:
                    clause = 'roundtrip_nfields'
                self._viol(clause, 'nFields', f'{name}: nFields={nf}, model has {n} (dead tail {M.dead_tail} B)')
            try:
                ts = h.times
                if [tbits(t) for t in ts] != [r[0] for r in M.records][: len(ts)] or len(ts) != n:
                    self._viol('roundtrip_times', 'times', f'{name}: times differ from model (got {len(ts)}, want {n})')
            except Exception as e:  # noqa: BLE001
                self._viol('roundtrip_times', 'times', f'raised {type(e).__name__}: {e}')
            for i in range(min(n, nf)):
                for idx in (i, i - n):
                    try:
                        t, f = h.readField(idx)
                    except Exception as e:  # noqa: BLE001
                        self._viol('roundtrip_field', 'readField', f'{name}: readField({idx}) raised {type(e).__name__}: {e}')
                        continue
                    if idx < 0:
                        self.res.probe('negative_index')
                    if tbits(t) != M.records[i][0]:
                        self._viol('roundtrip_field', 'readField', f'{name}: time of field {idx} differs')
                    if np.ascontiguousarray(f).tobytes() != M.records[i][1]:
                        self._viol('roundtrip_field', 'readField', f'{name}: bits of field {idx} differ', index=i, n=n)
                    hd = M.header
                    if hd['kind'] != 'Scalar' and tuple(f.shape) != (hd['nVar'], *hd['grid']):
                        self._viol('roundtrip_field', 'readField', f'{name}: shape {f.shape}')
                    try:
                        t2 = h.time(idx)
                        if tbits(t2) != M.records[i][0]:
                            self._viol('roundtrip_times', 'time', f'{name}: time({idx}) differs')
                    except Exception as e:  # noqa: BLE001
                        self._viol('roundtrip_times', 'time', f'raised {type(e).__name__}: {e}')
            for idx in (n, -n - 1, n + 3):
                try:
                    h.readField(idx)
                    self._viol('index_range', 'readField', f'{name}: readField({idx}) with {n} fields did not raise', n=n)
                except (AssertionError, IndexError, ValueError):
                    self.res.probe('out_of_range_rejected')
                except Exception as e:  # noqa: BLE001
                    self._viol('index_range', 'readField', f'{name}: readField({idx}) raised {type(e).__name__}')
        self.log.add('fs', 'read', which, n, self._size())

    def op_fresh_read(self):
        """A new interpreter reads the file through the generic reader and reports digests."""
        M = self.model
        if M.header is None:
            return
        import sim

        code = (
            'import sys, json, hashlib, struct; sys.path.insert(0, %r)\n'
            'import numpy as np\n'
            'from pySDC.helpers.fieldsIO import FieldsIO\n'
            'h = FieldsIO.fromFile(%r)\n'
            'out = {"cls": type(h).__name__, "n": h.nFields, "nVar": int(h.header["nVar"]), "dtype": np.dtype(h.dtype).name,\n'
            '       "times": [struct.pack("<d", t).hex() for t in h.times],\n'
            '       "fields": [hashlib.sha1(np.ascontiguousarray(h.readField(i)[1]).tobytes()).hexdigest() for i in range(h.nFields)]}\n'
            'print("OUT " + json.dumps(out))\n'
        ) % (sim.repo_path(), self.path)
        p = subprocess.run([sys.executable, '-c', code], capture_output=True, text=True, timeout=120)
        line = [ln for ln in p.stdout.splitlines() if ln.startswith('OUT ')]
        self.res.probe('fresh_process_read')
        if not line:
            self._viol('fresh_process_mismatch', 'fromFile', f'new process failed: {p.stderr[-300:]}')
            return
        import hashlib
        import json

        out = json.loads(line[0][4:])
        want = {
            'cls': 'Scalar' if M.header['kind'] == 'Scalar' else 'Rectilinear',
            'n': len(M.records),
            'nVar': M.header['nVar'],
            'dtype': DT_NAMES[M.header['dtype']],
            'times': [r[0].hex() for r in M.records],
            'fields': [hashlib.sha1(r[1]).hexdigest() for r in M.records],
        }
        if out != want:
            self._viol('fresh_process_mismatch', 'fromFile', f'new process reads {out} != {want}')
        self.log.add('fs', 'fresh_read', out['n'])


def execute_ops(sc):
    """sc = {'engine':'simfs','header':{...},'ops':[[name,...],...]} -> Result"""
    res = Result()
    log = EventLog()
    sim = FsSim(sc, res, log)
    try:
        for op in sc['ops']:
            name, args = op[0], op[1:]
            try:
                _one_op(sim, sc, name, args)
            except Exception:
                if res['violations']:
                    break  # the history already violated the property; what the code does afterwards is not judged
                raise
        res['ticks'] = len(sc['ops'])
        res['nontrivial'] = any(o[0] in ('crash_append', 'crash_create') for o in sc['ops']) or sum(o[0] == 'append' for o in sc['ops']) >= 1
    finally:
        sim.close()
    return res.finish(log)


def _one_op(sim, sc, name, args):
    if name == 'create':
        sim.use(args[2] if len(args) > 2 else 0)
        sim.op_create(sc['header'] if not args or args[0] is None else args[0], allow=bool(args[1]) if len(args) > 1 else False)
    elif name == 'append':
        sim.use(args[2] if len(args) > 2 else 0)
        sim.op_append(args[0], args[1])
    elif name == 'crash_append':
        sim.use(args[4] if len(args) > 4 else 0)
        sim.op_crash_append(args[0], args[1], args[2], args[3] if len(args) > 3 else 'size', args[5] if len(args) > 5 else 'self')
    elif name == 'crash_create':
        sim.use(0)
        sim.op_crash_create(sc['header'], args[0])
    elif name == 'reopen':
        sim.use(args[1] if len(args) > 1 else 0)
        sim.op_reopen(args[0] if args else 'generic')
    elif name == 'read':
        sim.use(args[1] if len(args) > 1 else 0)
        sim.op_read(args[0] if args else 'live')
    elif name == 'fresh_read':
        sim.op_fresh_read()
    else:
        raise ValueError(f'unknown op {name}')
