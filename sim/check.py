"""CLI:  python -m sim.check Cxx [--tier quick|thorough] [--n N] [--workers W] [--budget S]

exit 0: property held on everything explored (KNOWN-FINDING lines possible)
exit 1: at least one `VIOLATION property=Cxx replay=<path>` (replay verified in a fresh process first)
exit 2: HARNESS-ERROR / HARNESS-TIMEOUT (never a pass, never a violation)
"""
import argparse
import importlib
import json
import os
import subprocess
import sys
import time

import sim

sim.bootstrap()

from sim.core import base, pool, findings, minimize  # noqa: E402

MODULES = {
    'C01': 'sim.checks.c01',
    'C03': 'sim.checks.c03',
    'C06': 'sim.checks.c06',
    'C07': 'sim.checks.c07',
    'C08': 'sim.checks.c08',
    'C09': 'sim.checks.c09',
    'C13': 'sim.checks.c13',
    'C14': 'sim.checks.c14',
    'C16': 'sim.checks.c16',
    'C19': 'sim.checks.c19',
}


def load(prop):
    return importlib.import_module(MODULES[prop])


_CTX = {}


def _worker(index):
    mod, seed, tier, keep = _CTX['mod'], _CTX['seed'], _CTX['tier'], _CTX['keep']
    sc = mod.generate(seed, tier, index)
    res = mod.execute(sc)
    out = dict(res)
    if res['violations'] or index < keep:
        out['scenario'] = sc
    else:
        out['head'] = []
    return out


def _digest_worker(index):
    mod, seed, tier = _CTX['mod'], _CTX['seed'], _CTX['tier']
    res = mod.execute(mod.generate(seed, tier, index))
    return [res['digest'], sorted(base.sig_of(v) for v in res['violations'])]


def digests(mod, seed, tier, indices, workers, chunk):
    _CTX.update(mod=mod, seed=seed, tier=tier)
    recs, _ = pool.run_forked(
        _digest_worker, [(i,) for i in indices], workers=workers, chunk=chunk, per_run_timeout=mod.plan(tier).get('timeout', 120)
    )
    out = {}
    for st, key, payload in recs:
        out[key] = payload if st == 'ok' else [f'{st}', str(payload)[-300:]]
    return out


def determinism_selftest(mod, prop, seed, tier, indices, first):
    """Same seeds again: other chunking/worker count in this interpreter, and a fresh interpreter with another
    PYTHONHASHSEED.  Digests and verdict signatures must agree pairwise."""
    problems = []
    a = digests(mod, seed, tier, indices, workers=3, chunk=1)
    for i in indices:
        if i in first and json.dumps(a.get(i)) != json.dumps(first[i]):
            problems.append(('rechunk', i, first[i], a.get(i)))
    env = dict(os.environ)
    env['PYTHONHASHSEED'] = str(1 + (seed % 1000) * 7)
    env['VERIF_SEED'] = str(seed)
    cmd = [sys.executable, '-m', 'sim.check', prop, '--tier', tier, '--digests', ','.join(map(str, indices))]
    try:
        p = subprocess.run(cmd, env=env, cwd=sim.VERIF_DIR, capture_output=True, text=True, timeout=900)
        line = [ln for ln in p.stdout.splitlines() if ln.startswith('DIGESTS ')]
        b = {int(k): v for k, v in json.loads(line[-1][8:]).items()} if line else {}
        if not line:
            problems.append(('fresh-interpreter', -1, 'no output', (p.stdout + p.stderr)[-500:]))
    except subprocess.TimeoutExpired:
        b = {}
        problems.append(('fresh-interpreter', -1, 'timeout', ''))
    for i in indices:
        if i in b and i in first and json.dumps(b[i]) != json.dumps(first[i]):
            problems.append(('hashseed', i, first[i], b[i]))
    return problems, len(indices) * 2


def main(argv=None):
    ap = argparse.ArgumentParser()
    ap.add_argument('prop')
    ap.add_argument('--tier', default=None)
    ap.add_argument('--n', type=int, default=None)
    ap.add_argument('--workers', type=int, default=None)
    ap.add_argument('--budget', type=float, default=None)
    ap.add_argument('--digests', default=None, help='internal: print digests for these indices')
    ap.add_argument('--no-selftest', action='store_true')
    ap.add_argument('--no-minimize', action='store_true')
    ap.add_argument('--evidence', default=None)
    args = ap.parse_args(argv)

    prop = args.prop
    tier = args.tier or base.env_tier()
    seed = base.env_seed()
    mod = load(prop)
    plan = mod.plan(tier)
    workers = args.workers or int(os.environ.get('VERIF_WORKERS', '0')) or min(16, os.cpu_count() or 1)

    if args.digests is not None:
        idx = [int(x) for x in args.digests.split(',') if x]
        d = digests(mod, seed, tier, idx, workers=min(workers, 8), chunk=7)
        print('DIGESTS ' + json.dumps(d))
        return 0

    t0 = time.time()
    n = args.n or plan['n']
    budget = args.budget if args.budget is not None else float(os.environ.get('VERIF_BUDGET_S') or plan.get('budget_s'))
    print(f'[{prop}] tier={tier} seed={seed} runs={n} workers={workers} repo={sim.repo_path()}', flush=True)
    _CTX.update(mod=mod, seed=seed, tier=tier, keep=4)

    agg = {
        'evaluations': 0,
        'nontrivial': 0,
        'digests': set(),
        'probes': {},
        'faults': {},
        'ticks': 0,
        'model_time': 0.0,
        'events': 0,
        'harness': [],
        'viol': {},
        'samples': [],
        'first': {},
        'info': {},
    }

    def on_record(rec):
        st, key, payload = rec
        if st != 'ok':
            if st != 'notrun':
                agg['harness'].append((st, key, str(payload)[-1500:]))
            return
        r = payload
        agg['evaluations'] += 1
        if r['nontrivial']:
            agg['nontrivial'] += 1
            agg['digests'].add(r['digest'])
        for k, v in r['probes'].items():
            agg['probes'][k] = agg['probes'].get(k, 0) + v
        for k, v in r['faults'].items():
            agg['faults'][k] = agg['faults'].get(k, 0) + v
        for k, v in r.get('info', {}).items():
            if isinstance(v, (int, float)):
                agg['info'][k] = agg['info'].get(k, 0) + v
        agg['ticks'] += r['ticks']
        agg['model_time'] += r['model_time']
        agg['events'] += r['events']
        if key < 40:
            agg['first'][key] = [r['digest'], sorted(base.sig_of(v) for v in r['violations'])]
        if 'scenario' in r and key < 4:
            agg['samples'].append({'index': key, 'scenario': r['scenario'], 'event_log_head': r['head'], 'digest': r['digest']})
        for v in r['violations']:
            sg = base.sig_of(v)
            cur = agg['viol'].setdefault(sg, {'count': 0, 'best': None, 'idents': []})
            cur['count'] += 1
            size = len(json.dumps(r['scenario']))
            if cur['best'] is None or size < cur['best'][0]:
                cur['best'] = (size, key, r['scenario'], v)
            if len(cur['idents']) < 50:
                cur['idents'].append((key, r['scenario'], v))

    recs, st = pool.run_forked(
        _worker,
        [(i,) for i in range(n)],
        workers=workers,
        chunk=plan.get('chunk', 20),
        per_run_timeout=plan.get('timeout', 120),
        budget_s=budget,
        on_record=on_record,
    )
    wall_runs = time.time() - t0

    exit_code = 0
    # ---- determinism self-test (small sample in quick, larger in thorough)
    selftest = {'runs': 0, 'problems': []}
    if not args.no_selftest and agg['first']:
        k = plan.get('selftest', 12)
        idx = sorted(agg['first'])[:k]
        problems, runs = determinism_selftest(mod, prop, seed, tier, idx, agg['first'])
        selftest = {'runs': runs, 'problems': problems[:5]}
        if problems:
            print(f'HARNESS-ERROR property={prop} determinism self-test failed: {problems[:3]}')
            exit_code = 2

    # ---- extra (non-sampled) parts of a check, e.g. a finite sub-space enumerated completely
    extra = {}
    if hasattr(mod, 'extra'):
        extra = mod.extra(tier, seed, workers)
        for v in extra.pop('violations', []):
            sg = base.sig_of(v['violation'])
            cur = agg['viol'].setdefault(sg, {'count': 0, 'best': None, 'idents': []})
            cur['count'] += 1
            size = len(json.dumps(v['scenario']))
            if cur['best'] is None or size < cur['best'][0]:
                cur['best'] = (size, -1, v['scenario'], v['violation'])
            cur['idents'].append((-1, v['scenario'], v['violation']))
        for h in extra.pop('harness', []):
            agg['harness'].append(h)

    # ---- violations: known finding?  else minimise, write replay, verify in a fresh process, report
    kf = findings.load()
    known_seen = []
    new_violations = 0
    for sg, cur in sorted(agg['viol'].items()):
        unknown = [(key, sc, v) for key, sc, v in cur['idents'] if findings.match(kf, v) is None]
        matched = [findings.match(kf, v) for key, sc, v in cur['idents']]
        matched = [m for m in matched if m is not None]
        for m in {m['id']: m for m in matched}.values():
            print(f"KNOWN-FINDING: property={prop} {m['what']} (id={m['id']}, seen in {cur['count']} run(s) of this batch)")
            known_seen.append(m['id'])
        if not unknown:
            continue
        key, sc, v = min(unknown, key=lambda t: len(json.dumps(t[1])))
        if not args.no_minimize and new_violations < plan.get('max_minimize', 4):
            sc, v, mstats = minimize.minimize(mod, sc, v, kf, workers=workers, budget_s=plan.get('minimize_s', 120))
        else:
            mstats = {}
        path = minimize.write_replay(prop, sc, v, mod)
        ok, why = minimize.verify_replay(path)
        if ok:
            print(f'VIOLATION property={prop} replay={path}')
            print(f'  clause={v["clause"]} site={v["site"]} runs_hit={cur["count"]} detail={v["detail"]}')
            new_violations += 1
            exit_code = max(exit_code, 1) if exit_code != 2 else 2
        else:
            print(f'HARNESS-ERROR property={prop} replay {path} does not reproduce: {why}')
            exit_code = 2

    for st_, key, tb in agg['harness'][:5]:
        print(f'HARNESS-{"TIMEOUT" if st_ == "timeout" else "ERROR"} property={prop} run={key}: {tb}')
    if agg['harness']:
        exit_code = 2
    if agg['evaluations'] == 0:
        print(f'HARNESS-ERROR property={prop}: no run completed')
        exit_code = 2

    wall = time.time() - t0
    distinct = len(agg['digests'])
    stuck = [p for p in getattr(mod, 'PROBES', []) if agg['probes'].get(p, 0) == 0]
    if stuck and tier == 'thorough':
        print(f'WARNING property={prop}: reach probes stuck at 0: {stuck}')
    ev = {
        'property_id': prop,
        'tier': tier,
        'seed': seed,
        'level': mod.LEVEL,
        'coverage': {
            'evaluations': agg['evaluations'] + int(extra.get('evaluations', 0)),
            'distinct_nontrivial': distinct + int(extra.get('distinct_nontrivial', 0)),
            'rule': mod.RULE,
            'samples': agg['samples'][:3] or [{'note': 'no sample kept'}],
            # a finite sub-space counts as enumerated completely only if every scheduled run of this invocation finished
            'exhaustive': bool(extra.get('exhaustive', False)) and st['skipped_for_budget'] == 0 and not agg['harness'] and (args.n is None or args.n >= plan['n']),
            'simulated_runs': agg['evaluations'],
            'nontrivial_runs': agg['nontrivial'],
            'distinct_trace_digests': distinct,
            'runs_per_hour': int(agg['evaluations'] / max(wall_runs, 1e-9) * 3600),
            'seeds': f'VERIF_SEED={seed}; run i uses Random("{seed}/{prop}/i"), i in [0,{n})',
            'scheduler_steps_or_hook_callbacks': agg['ticks'],
            'event_log_entries': agg['events'],
            'simulated_model_time': agg['model_time'],
            'faults_fired': dict(sorted(agg['faults'].items())),
            'reach_probes': dict(sorted(agg['probes'].items())),
            'reach_probes_stuck_at_zero': stuck,
            'info': dict(sorted(agg['info'].items())),
            'components_real': mod.COMPONENTS_REAL,
            'components_stub': mod.COMPONENTS_STUB,
            'determinism_selftest': selftest,
            'known_findings_seen': sorted(set(known_seen)),
            'skipped_for_wall_budget': st['skipped_for_budget'],
            'harness_errors': len(agg['harness']),
            **{k: v for k, v in extra.items() if k not in ('evaluations', 'distinct_nontrivial', 'exhaustive')},
        },
        'assumptions': mod.ASSUMPTIONS,
        'wall_s': round(wall, 2),
        'violations': new_violations,
    }
    # ---- thorough tier only, clean tree only: run the check against the seeded changes kept for this property
    if tier == 'thorough' and exit_code == 0 and args.n is None and not os.environ.get('VERIF_REPO') and os.environ.get('VERIF_SENSITIVITY', '1') != '0':
        from sim import sensitivity

        ev['coverage']['sensitivity'] = sensitivity.run(prop, seed)
        ev['wall_s'] = round(time.time() - t0, 2)
    evpath = args.evidence or os.path.join(sim.VERIF_DIR, 'evidence', f'{prop}.json')
    os.makedirs(os.path.dirname(evpath), exist_ok=True)
    with open(evpath, 'w') as f:
        json.dump(base.canon_json(ev), f, indent=1, sort_keys=True)
    print(
        f'[{prop}] runs={agg["evaluations"]} nontrivial={agg["nontrivial"]} distinct={distinct} '
        f'violating_signatures={len(agg["viol"])} new={new_violations} known={sorted(set(known_seen))} '
        f'harness={len(agg["harness"])} wall={wall:.1f}s exit={exit_code}',
        flush=True,
    )
    return exit_code


if __name__ == '__main__':
    sys.exit(main())
