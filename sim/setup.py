"""python -m sim.setup: offline build step -- byte-compile /verif/sim, check that the repository under test and the
engines import, create output directories.  No network, nothing fetched."""
import compileall
import os
import sys

import sim

sim.bootstrap()


def main():
    ok = compileall.compile_dir(os.path.join(sim.VERIF_DIR, 'sim'), quiet=1)
    import numpy  # noqa: F401
    import scipy  # noqa: F401
    import qmat  # noqa: F401
    import dill  # noqa: F401
    import pySDC

    for d in ('evidence', 'replays'):
        os.makedirs(os.path.join(sim.VERIF_DIR, d), exist_ok=True)
    print(f'setup ok: pySDC from {os.path.dirname(pySDC.__file__)}, python {sys.version.split()[0]}')
    return 0 if ok else 1


if __name__ == '__main__':
    sys.exit(main())
