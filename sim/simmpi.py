"""Engine `simmpi`: the world behind the simulated mpi4py -- ranks as baton-passing threads, a seeded scheduler that
decides who runs next, when matched non-blocking operations complete, whether standard sends buffer, which collective
members leave early.  One seed = one exactly repeatable execution.  See DESIGN 2.3."""
import os
import sys
import threading
import traceback

import numpy as np

FAKE_DIR = os.path.join(os.path.dirname(os.path.abspath(__file__)), 'fake_mpi4py')


def install_fake_mpi():
    """Put the simulated mpi4py first on sys.path.  Must happen before pySDC modules that import mpi4py are loaded."""
    if FAKE_DIR in sys.path:
        sys.path.remove(FAKE_DIR)
    sys.path.insert(0, FAKE_DIR)
    for name in [m for m in sys.modules if m == 'mpi4py' or m.startswith('mpi4py.')]:
        mod = sys.modules[name]
        if not getattr(mod, '__file__', '').startswith(FAKE_DIR):
            del sys.modules[name]
    from mpi4py import MPI  # noqa: F401

    return MPI


class Deadlock(Exception):
    pass


class _Rank:
    def __init__(self, r):
        self.r = r
        self.sem = threading.Semaphore(0)
        self.ready = lambda: True
        self.label = ('start',)
        self.finished = False
        self.error = None
        self.result = None
        self.thread = None
        self.prio = 0.0


class _Coll:
    def __init__(self, kind, root, n, uid):
        self.kind, self.root, self.n, self.uid = kind, root, n, uid
        self.vals = [None] * n
        self.arrived = set()


class World:
    def __init__(self, nranks, rng, res, log, params=None):
        from mpi4py import MPI

        self.MPI = MPI
        p = params or {}
        self.n = nranks
        self.rng = rng
        self.res, self.elog = res, log
        self.tick = 0
        self.ids = 0
        self.ranks = [_Rank(r) for r in range(nranks)]
        self.sched_sem = threading.Semaphore(0)
        self.aborting = False
        self.strategy = p.get('strategy', 'random')
        self.max_tests = p.get('max_tests', 6)
        self.p_buffer = p.get('p_buffer', 0.5)
        self.p_early = p.get('p_early', 0.5)
        self.p_scribble = p.get('p_scribble', 0.3)
        self.p_read_at_post = p.get('p_read_at_post', 0.5)
        self.delays = p.get('delays', [0, 0, 1, 3, 10])
        self.p_only_at_wait = p.get('p_only_at_wait', 0.25)
        self.step_cap = p.get('step_cap', 2000000)
        self.sends, self.recvs = [], []
        self.colls = {}
        self.coll_seq = {}
        self.comms = {}
        self.violations = []
        self.comm_world = self.comm_for(('world',), list(range(nranks)))
        self.special = p.get('special_rank', rng.randrange(nranks))
        self.change_points = sorted(rng.randrange(1, 4000) for _ in range(p.get('pct_d', 3)))
        for rk in self.ranks:
            rk.prio = rng.random()
        self.rr = 0
        self.decisions = 0
        self.row_size = max(int(p.get('row_size', 1)), 1)
        by_row = rng.random() < 0.6
        self.group_of = (lambda r: r // self.row_size) if by_row else (lambda r: r % self.row_size)
        ngroups = (nranks + self.row_size - 1) // self.row_size if by_row else self.row_size
        order = list(range(ngroups))
        rng.shuffle(order)
        self.group_prio = {g: pr for pr, g in enumerate(order)}
        self.outcome = None
        self.clock_offset = [rng.uniform(0, 5) for _ in range(nranks)]
        self.clock_rate = [rng.choice([0.5, 1.0, 1.0, 2.0]) * 1e-3 for _ in range(nranks)]

    # ------------------------------------------------------------------------------------------------ helpers
    def new_id(self):
        self.ids += 1
        return self.ids

    def current(self):
        return threading.current_thread().sim_rank

    def log(self, *entry):
        self.elog.add(*entry)

    def probe(self, name, n=1):
        self.res.probe(name, n)

    def violate(self, clause, site, detail, **ident):
        self.violations.append((clause, site, detail, ident))

    def clock(self):
        r = getattr(threading.current_thread(), 'sim_rank', 0)
        return self.clock_offset[r] + self.clock_rate[r] * self.tick

    def comm_for(self, key, members):
        if key not in self.comms:
            self.comms[key] = self.MPI.Intracomm(self, len(self.comms), members)
        return self.comms[key]

    # ------------------------------------------------------------------------------------------------ baton
    def park(self, ready, label):
        rk = self.ranks[self.current()]
        rk.ready, rk.label = ready, label
        self.sched_sem.release()
        rk.sem.acquire()
        if self.aborting:
            raise self.MPI.SimAbort()

    def _thread_main(self, rk, fn):
        rk.sem.acquire()
        try:
            if self.aborting:
                raise self.MPI.SimAbort()
            rk.result = fn(rk.r)
        except self.MPI.SimAbort:
            rk.error = rk.error or ('SimAbort', '')
        except BaseException as e:  # noqa: BLE001 - outcome of the rank
            rk.error = (type(e).__name__, str(e)[:300], traceback.format_exc()[-1500:])
        finally:
            rk.finished = True
            self.sched_sem.release()

    def choose(self, ready):
        self.decisions += 1
        if len(ready) == 1:
            return ready[0]
        s = self.strategy
        if s == 'rr':
            ready.sort(key=lambda rk: (rk.r - self.rr) % self.n)
            self.rr = (ready[0].r + 1) % self.n
            return ready[0]
        if s == 'starve':
            others = [rk for rk in ready if rk.r != self.special]
            return self.rng.choice(others) if others else ready[0]
        if s == 'runahead':
            for rk in ready:
                if rk.r == self.special:
                    return rk
            return self.rng.choice(ready)
        if s == 'lowest':
            return min(ready, key=lambda rk: rk.r)
        if s == 'highest':
            return max(ready, key=lambda rk: rk.r)
        if s == 'rowprio':
            # whole rows (time ranks) or columns (node ranks) of the rank grid run ahead of the others
            best = max(self.group_prio[self.group_of(rk.r)] for rk in ready)
            return self.rng.choice([rk for rk in ready if self.group_prio[self.group_of(rk.r)] == best])
        if s == 'pct':
            while self.change_points and self.decisions >= self.change_points[0]:
                self.change_points.pop(0)
                victim = max(ready, key=lambda rk: rk.prio)
                victim.prio = -self.decisions  # lowest from now on
            return max(ready, key=lambda rk: rk.prio)
        return self.rng.choice(ready)

    def run(self, fn):
        """Run fn(rank) on every rank under the scheduler.  Returns outcome dict."""
        self.MPI._WORLD[0] = self
        for rk in self.ranks:
            t = threading.Thread(target=self._thread_main, args=(rk, fn), daemon=True)
            t.sim_rank = rk.r
            rk.thread = t
            t.start()
        running = None
        outcome = 'finished'
        try:
            while True:
                if running is not None:
                    self.sched_sem.acquire()
                live = [rk for rk in self.ranks if not rk.finished]
                if not live:
                    break
                if any(rk.error and rk.error[0] != 'SimAbort' for rk in self.ranks if rk.finished):
                    # a rank raised (e.g. ConvergenceError): the job is aborted, as mpirun would do
                    outcome = 'aborted'
                    break
                self.tick += 1
                if self.tick > self.step_cap:
                    outcome = 'step_cap'
                    break
                ready = [rk for rk in live if rk.ready()]
                while not ready:
                    # discrete-event jump: completions that are merely delayed
                    future = [q.ready_tick for q in self.sends + self.recvs if q.matched and not q.complete and q.ready_tick is not None and q.ready_tick > self.tick]
                    if not future:
                        break
                    self.tick = min(future)
                    ready = [rk for rk in live if rk.ready()]
                if not ready:
                    outcome = 'deadlock'
                    self.violate('deadlock', 'simulated MPI', 'no rank can make progress: ' + '; '.join(f'rank {rk.r} blocked in {rk.label}' for rk in live))
                    break
                rk = self.choose(ready)
                self.log('sched', self.tick, rk.r, rk.label[0])
                running = rk
                rk.sem.release()
        finally:
            self.aborting = True
            for rk in self.ranks:
                if not rk.finished:
                    rk.sem.release()
            for rk in self.ranks:
                rk.thread.join(timeout=20)
            self.MPI._WORLD[0] = None
        self.outcome = outcome
        if outcome == 'finished':
            self.finalize_checks()
        return outcome

    # ------------------------------------------------------------------------------------------------ point to point
    def _delay(self, q):
        if self.rng.random() < self.p_only_at_wait:
            q.only_at_wait = True
            q.ready_tick = self.tick
        else:
            q.ready_tick = self.tick + self.rng.choice(self.delays)

    def _matches(self, s, r):
        return s.ctx == r.ctx and s.dst == r.dst and r.src in (s.src, self.MPI.ANY_SOURCE) and r.tag in (s.tag, self.MPI.ANY_TAG)

    def _match(self, s, r):
        s.recv, r.send = r, s
        r.matched = True
        if not s.complete:
            s.matched = True
            self._delay(s)
        self._delay(r)
        self.log('match', self.tick, s.id, r.id)
        if r.id < s.id:
            self.probe('recv_posted_before_send')

    def post_send(self, s):
        if s.mode == 'standard' and self.rng.random() < self.p_buffer:
            s.buffered = True
            s.payload = s.payload_fn()
            s.complete = True
            self.probe('send_buffered')
        else:
            if s.mode == 'standard':
                self.probe('send_rendezvous')
            if self.rng.random() < self.p_read_at_post:
                s.payload = s.payload_fn()
                s.read_at_post = True
        self.log('mpi', self.tick, s.owner, 'send:' + s.mode, s.ctx, s.dst, s.tag, s.nbytes, s.buffered)
        self.sends.append(s)
        for r in self.recvs:
            if r.send is None and self._matches(s, r):
                # non-overtaking: an earlier unmatched send of the same source that also matches r would have taken it already
                self._match(s, r)
                break

    def post_recv(self, r):
        self.log('mpi', self.tick, r.owner, 'recv', r.ctx, r.src, r.tag, None if r.buf is None else r.buf.nbytes)
        self.recvs.append(r)
        if r.buf is not None and not r.blocking and r.buf.dtype.kind in 'fc' and self.rng.random() < self.p_scribble:
            r.buf[...] = np.nan  # a pending receive buffer holds garbage until completion
            r.scribbled = True
            self.probe('recv_buffer_scribbled_while_pending')
        for s in self.sends:
            if s.recv is None and self._matches(s, r):
                self._match(s, r)
                break

    def finish_request(self, q):
        if q.complete:
            return
        if q.kind == 'send':
            if q.crc_fn is not None and q.crc_fn() != q.crc_at_post:
                self.violate('send_buffer_modified', 'non-blocking send', f'rank {q.owner}: buffer of the send to {q.dst} (tag {q.tag}) was modified before the send completed', tag=q.tag)
            if q.payload is None:
                q.payload = q.payload_fn()
            q.complete = True
        else:
            s = q.send
            if s.payload is None:
                # the data moves only now: the send cannot have completed before, so its buffer must still be untouched
                if s.crc_fn is not None and s.crc_fn() != s.crc_at_post:
                    self.violate('send_buffer_modified', 'non-blocking send', f'rank {s.owner}: buffer of the send to {s.dst} (tag {s.tag}) was modified before the send completed (the receiver gets the modified data)', tag=s.tag)
                s.payload = s.payload_fn()
            if q.obj:
                import pickle

                q.value = pickle.loads(s.payload)
            else:
                if s.payload.size != q.buf.size:
                    self.violate('message_truncated', 'receive', f'rank {q.owner}: received {s.payload.size} items into a buffer of {q.buf.size}')
                else:
                    q.buf[...] = s.payload.reshape(q.buf.shape).astype(q.buf.dtype, copy=False)
            q.complete = True
        self.log('complete', self.tick, q.id)

    # ------------------------------------------------------------------------------------------------ collectives
    def collective(self, comm, kind, root, contribution, early_roles):
        me_w = self.current()
        me = comm.members.index(me_w)
        seq = self.coll_seq.setdefault((comm.ctx, me_w), 0)
        self.coll_seq[(comm.ctx, me_w)] = seq + 1
        key = (comm.ctx, seq)
        inst = self.colls.get(key)
        if inst is None:
            inst = self.colls[key] = _Coll(kind, root, len(comm.members), self.new_id())
        elif inst.kind != kind or inst.root != root:
            self.violate('collective_mismatch', 'collective', f'rank {me_w} enters {kind}(root={root}) as collective #{seq} of communicator {comm.ctx}, others entered {inst.kind}(root={inst.root})')
            raise self.MPI.SimAbort()
        inst.vals[me] = contribution
        inst.arrived.add(me)
        self.log('mpi', self.tick, me_w, 'coll:' + kind, comm.ctx, root, seq)
        full = lambda: len(inst.arrived) == inst.n  # noqa: E731
        early = False
        if 'root' in early_roles and me == root and self.rng.random() < self.p_early:
            early = True
        if 'nonroot' in early_roles and me != root and self.rng.random() < self.p_early:
            early = True
        if early:
            self.probe('collective_early_exit')
            self.park(lambda: True, (kind, comm.ctx, seq, 'early'))
        elif kind in ('bcast', 'Bcast') and me != root and self.rng.random() < self.p_early:
            self.park(lambda: root in inst.arrived, (kind, comm.ctx, seq, 'data'))
        else:
            self.park(full, (kind, comm.ctx, seq))
        if kind == 'Split':
            return list(inst.vals) + [inst.uid]
        return inst.vals

    # ------------------------------------------------------------------------------------------------ finalisation
    def finalize_checks(self):
        for s in self.sends:
            if s.recv is None:
                self.violate('unmatched_send', 'finalisation', f'rank {s.owner}: message to {s.dst} with tag {s.tag} on communicator {s.ctx} was never received', tag=s.tag)
            elif not s.complete:
                self.probe('request_dropped_while_pending')
        for r in self.recvs:
            if r.send is None:
                self.violate('unmatched_recv', 'finalisation', f'rank {r.owner}: receive from {r.src} with tag {r.tag} on communicator {r.ctx} was never matched by a send', tag=r.tag)
            elif not r.complete:
                self.violate('incomplete_recv', 'finalisation', f'rank {r.owner}: receive from {r.src} tag {r.tag} was never completed (no Wait)')
        for (ctx, seq), inst in self.colls.items():
            if len(inst.arrived) != inst.n:
                self.violate('collective_incomplete', 'finalisation', f'collective #{seq} ({inst.kind}) of communicator {ctx} was entered by {len(inst.arrived)} of {inst.n} members')


# ==================================================================================================== pySDC on the fake
MPI_SWEEPER = {'generic_implicit': 'generic_implicit_MPI', 'imex_1st_order': 'imex_1st_order_MPI'}


def summarize_attempts(ctx):
    """Plain-data summary of what the observer saw (comparable between the serial and the MPI flavour)."""
    from sim.core.base import bdigest

    out = []
    for a in ctx.attempts:
        out.append(
            {
                'block': a['block'],
                'slot': a['slot'],
                't': a['t'],
                'dt': a['dt'],
                'post': bool(a.get('post')),
                'iter': a.get('iter'),
                'niter_cb': a.get('niter_cb'),
                'restart_final': a.get('restart_final'),
                'restarts_in_a_row': a.get('restarts_in_a_row'),
                'uend': None if a.get('uend') is None else bdigest(a['uend']),
                'uend_arr': None if a.get('uend') is None else np.array(a['uend']),
                'u0_post': None if a.get('u0_post') is None else bdigest(a['u0_post']),
                'u0_post_arr': None if a.get('u0_post') is None else np.array(a['u0_post']),
                'residual': a.get('residual'),
                'e_est': a.get('e_est'),
                'dt_new': a.get('dt_new'),
            }
        )
    return out


def run_mpi(sc, res, log):
    """Run sc['config'] with controller_MPI on T time ranks x S node ranks under the scheduler sc['sched']."""
    import logging
    import random
    import warnings

    from sim import blocksim
    from sim.core.base import bdigest

    MPI = install_fake_mpi()
    from pySDC.implementations.controller_classes.controller_MPI import controller_MPI

    cfg = sc['config']
    T, S = cfg['P'], sc.get('S', 1)
    sched = sc['sched']
    rng = random.Random(f"sched/{sched['seed']}")
    world = World(T * S, rng, res, log, {**sched, 'row_size': S})
    warnings.simplefilter('ignore')
    np.seterr(all='ignore')
    np.random.seed(20260925)
    ctxs = {}

    def main(rank):
        comm = MPI.COMM_WORLD
        t, s = divmod(rank, S)
        if S > 1:
            comm_time = comm.Split(color=s, key=t)
            comm_sweep = comm.Split(color=t, key=s)
        else:
            comm_time, comm_sweep = comm, None
        ctx = blocksim.Ctx(sc, res if rank == 0 else blocksim.Result(), log if rank == 0 else blocksim.EventLog())
        ctxs[rank] = ctx
        pcls = blocksim.resolve(cfg['problem']['class'])
        swname = cfg['sweeper']['class']
        swp = dict(cfg['sweeper']['params'])
        if S > 1:
            swname = MPI_SWEEPER[swname]
            swp['comm'] = comm_sweep
        desc = {
            'problem_class': pcls,
            'problem_params': blocksim.conv_params(cfg['problem'].get('params', {})),
            'sweeper_class': blocksim.resolve(swname),
            'sweeper_params': swp,
            'level_params': dict(cfg['level']),
            'step_params': dict(cfg['step']),
        }
        if cfg.get('transfer'):
            desc['space_transfer_class'] = blocksim.resolve(cfg['transfer']['class'])
            desc['space_transfer_params'] = dict(cfg['transfer'].get('params', {}))
            if S > 1:
                desc['base_transfer_class'] = blocksim.resolve('base_transfer_MPI')
        ccs = {}
        for name, params in cfg.get('cc', []):
            ccs[blocksim.resolve(name.replace('NonMPI', 'MPI'))] = dict(params)
        vcc = blocksim.make_ccs(ctx)
        for name in sc.get('plugins', ['MonFirst']):
            ccs[vcc[name]] = {}
        desc['convergence_controllers'] = ccs
        hooks = [blocksim.make_observer(ctx)] + [blocksim.resolve(h) for h in cfg.get('hooks', [])]
        cparams = {'logger_level': 90, 'dump_setup': False, 'hook_class': hooks, **cfg.get('controller', {})}
        # every rank builds its transfer matrices from the same state of numpy's global RNG as the serial counterpart (finding F11)
        np.random.seed(20260925)
        ctrl = controller_MPI(cparams, desc, comm_time)
        logging.getLogger().handlers.clear()
        orig_restart = ctrl.restart_block

        def restart_block(size, time, u0, comm):
            ctx.block += 1
            if ctx.block > sc.get('max_blocks', 400):
                raise blocksim.StepCapExceeded(f'more than {sc.get("max_blocks", 400)} blocks')
            ctx.cur = {}
            ctx.blocks.append({'index': ctx.block, 'active_slots': list(range(size)), 'time': [time], 'u0': np.array(u0)})
            return orig_restart(size, time, u0, comm=comm)

        ctrl.restart_block = restart_block
        rc = cfg['run']
        P0 = ctrl.S.levels[0].prob
        u0 = blocksim.initial_value_for(P0, rc.get('u0', 'exact'), rc['t0'])
        u0_before = np.array(u0)
        out = {'exc': None, 'ret': None, 'slot_at_end': None}
        try:
            uend, stats = ctrl.run(u0=u0, t0=rc['t0'], Tend=rc['Tend'])
            out['ret'] = bdigest(uend)
            out['ret_arr'] = np.array(uend)
            out['stats'] = stats
        except MPI.SimAbort:
            raise
        except Exception as e:  # noqa: BLE001
            out['exc'] = (type(e).__name__, str(e)[:300])
            raise
        finally:
            out['attempts'] = summarize_attempts(ctx)
            out['u0_modified'] = not np.array_equal(u0_before, np.array(u0))
            out['u0_before'] = u0_before
            out['time_rank'], out['node_rank'] = t, s
            out['nblocks'] = len(ctx.blocks)
            out['cc'] = ctx.cc
            world.ranks[rank].partial = out
        return out

    outcome = world.run(main)
    recs = []
    for rk in world.ranks:
        rec = rk.result if rk.result is not None else getattr(rk, 'partial', None)
        recs.append({'rank': rk.r, 'error': rk.error, 'rec': rec})
    res['ticks'] = world.tick
    return outcome, world, recs
